// C30: the events semaphore bounds, waits and times out correctly.
//
// Two checks:
//   - TestC30Sequential: single-threaded histories of try/acquire/release/terminate against a
//     counter model (results, Processing(), Available(), warning callback). Every Acquire in these
//     histories has a result that does not depend on other goroutines.
//   - TestC30Timed: one or two goroutines wait in Acquire while the test releases enough, too
//     little, nothing, or terminates. Results are judged from recorded time stamps with conditions
//     that are exact (no tolerance); only the "returns shortly after" clauses use real-time bounds,
//     under the timing policy of DESIGN.md (generous bounds, canary, 3 re-fails, own watchdog).
package c30

import (
	"fmt"
	"math"
	"os"
	"strings"
	"sync/atomic"
	"testing"
	"time"

	"github.com/Fantom-foundation/lachesis-base/inter/dag"
	"github.com/Fantom-foundation/lachesis-base/inter/idx"
	"github.com/Fantom-foundation/lachesis-base/utils/datasemaphore"
	"pgregory.net/rapid"

	"verif/harness/internal/stats"
)

func TestMain(m *testing.M) {
	startCanary()
	code := m.Run()
	stats.Flush()
	os.Exit(code)
}

// ---------------------------------------------------------------------------------------------
// amounts

type metric = dag.Metric

func mk(num, size int) metric  { return metric{Num: idx.Event(num), Size: uint64(size)} }
func plus(a, b metric) metric  { return metric{Num: a.Num + b.Num, Size: a.Size + b.Size} }
func minus(a, b metric) metric { return metric{Num: a.Num - b.Num, Size: a.Size - b.Size} }
func le(a, b metric) bool      { return a.Num <= b.Num && a.Size <= b.Size }
func isEmpty(a metric) bool    { return a.Num == 0 && a.Size == 0 }
func ms(d time.Duration) string {
	return fmt.Sprintf("%.2fms", float64(d)/float64(time.Millisecond))
}

// ---------------------------------------------------------------------------------------------
// timing policy

const (
	immediateBound = time.Second            // "immediately" / "as soon as": 10 x 0 + 1 s
	hangAfter      = 2 * time.Second        // own watchdog: a caller still blocked this long after its timeout (or after the moment it had to return at once) hangs
	canaryLimit    = 100 * time.Millisecond // canary oversleep above which a timing verdict is inconclusive
	longTimeout    = time.Hour              // "practically never": only used where the caller must return for another reason
	refails        = 3
)

// the timeouts callers use for "no limit": one hour and the very large values (the largest
// Duration, half of it, ~290 years); none of them can expire during a case
var longTimeouts = []time.Duration{longTimeout, longTimeout, time.Duration(math.MaxInt64), time.Duration(math.MaxInt64 / 2), 290 * 365 * 24 * time.Hour}

func isLong(d time.Duration) bool { return d >= longTimeout }

// clampLong maps every "no limit" timeout to one hour for the oracle's time arithmetic (all
// observed times are far below one hour, so every comparison keeps its meaning and nothing overflows).
func clampLong(d time.Duration) time.Duration {
	if d > longTimeout {
		return longTimeout
	}
	return d
}

func deadlineBound(nominal time.Duration) time.Duration {
	if nominal < 0 {
		nominal = 0
	}
	return 10*nominal + time.Second
}

// canary: a goroutine that sleeps 2 ms in a loop and records by how much it overslept.
var (
	canaryMax  atomic.Int64
	canaryLast atomic.Int64
	canaryBase = time.Now()
)

func startCanary() {
	canaryLast.Store(int64(time.Since(canaryBase)))
	go func() {
		for {
			t0 := time.Now()
			time.Sleep(2 * time.Millisecond)
			over := int64(time.Since(t0) - 2*time.Millisecond)
			for {
				cur := canaryMax.Load()
				if over <= cur || canaryMax.CompareAndSwap(cur, over) {
					break
				}
			}
			canaryLast.Store(int64(time.Since(canaryBase)))
		}
	}()
}

func canaryReset() { canaryMax.Store(0) }

// canaryOverslept returns the worst scheduling delay seen since canaryReset (including a canary
// that is overdue right now).
func canaryOverslept() time.Duration {
	m := time.Duration(canaryMax.Load())
	pending := time.Since(canaryBase) - time.Duration(canaryLast.Load()) - 2*time.Millisecond
	if pending > m {
		m = pending
	}
	return m
}

// verdict of one execution of a case
type verdict struct {
	hard   []string // violations that do not depend on the machine's speed
	timing []string // suspected deadline violations (subject to canary and re-fail policy)
}

func (v *verdict) hardf(f string, a ...interface{}) { v.hard = append(v.hard, fmt.Sprintf(f, a...)) }
func (v *verdict) timingf(f string, a ...interface{}) {
	v.timing = append(v.timing, fmt.Sprintf(f, a...))
}

// decide applies the policy: hard violations fail at once; a timing violation fails only when the
// canary was quiet and the same case fails `refails` more times in a row.
func decide(t *rapid.T, st *stats.Collector, key, desc string, first verdict, overloaded bool, rerun func() (verdict, bool)) (conclusive bool) {
	if len(first.hard) > 0 {
		t.Fatalf("C30 violation:\n  %s\n  case: %s", strings.Join(first.hard, "\n  "), desc)
	}
	if len(first.timing) == 0 {
		return true
	}
	if overloaded {
		st.Inconclusive()
		return false
	}
	if confirmed[key] {
		// the identical case already failed refails+1 times in a row in this process (rapid re-runs
		// the minimal case to print it): no need to spend the re-runs again
		t.Fatalf("C30 deadline violation (this case failed %d times in a row before, canary quiet):\n  %s\n  case: %s", refails+1, strings.Join(first.timing, "\n  "), desc)
	}
	last := first
	for i := 0; i < refails; i++ {
		v, ov := rerun()
		if len(v.hard) > 0 {
			t.Fatalf("C30 violation (on re-run %d):\n  %s\n  case: %s", i+1, strings.Join(v.hard, "\n  "), desc)
		}
		if len(v.timing) == 0 || ov {
			st.Inconclusive()
			return false
		}
		last = v
	}
	confirmed[key] = true
	t.Fatalf("C30 deadline violation (failed %d times in a row, canary quiet):\n  %s\n  case: %s", refails+1, strings.Join(last.timing, "\n  "), desc)
	return false
}

// cases whose deadline violation was confirmed by the full re-fail policy in this process
var confirmed = map[string]bool{}

// acquireWD calls Acquire on its own goroutine and gives up waiting after `limit`.
func acquireWD(sem *datasemaphore.DataSemaphore, w metric, timeout, limit time.Duration) (res bool, elapsed time.Duration, hung bool) {
	done := make(chan bool, 1)
	t0 := time.Now()
	go func() { done <- sem.Acquire(w, timeout) }()
	tm := time.NewTimer(limit)
	defer tm.Stop()
	select {
	case res = <-done:
		return res, time.Since(t0), false
	case <-tm.C:
	}
	// unblock the caller for cleanup: terminate and drop everything that is held
	unblock(sem)
	select {
	case res = <-done:
	case <-time.After(5 * time.Second):
	}
	return res, time.Since(t0), true
}

func unblock(sem *datasemaphore.DataSemaphore) {
	sem.Terminate()
	sem.Release(sem.Processing())
}

// ---------------------------------------------------------------------------------------------
// sequential histories

type seqOp struct {
	Kind    int // 0 try, 1 acquire, 2 release, 3 terminate
	Mode    int // how the amount is derived (see resolve)
	Num     int
	Size    int
	Timeout int // selector for the Acquire timeout
}

type seqCase struct {
	Cap metric
	Ops []seqOp
}

var kindNames = []string{"try", "acquire", "release", "terminate"}

func genSeq(t *rapid.T) seqCase {
	var c seqCase
	c.Cap = mk(rapid.IntRange(0, 4).Draw(t, "capNum"), rapid.IntRange(0, 8).Draw(t, "capSize"))
	n := rapid.IntRange(1, 25).Draw(t, "nops")
	for i := 0; i < n; i++ {
		var o seqOp
		o.Kind = rapid.SampledFrom([]int{0, 0, 0, 1, 1, 1, 1, 2, 2, 2, 2, 2, 3}).Draw(t, "kind")
		if o.Kind == 3 && rapid.IntRange(0, 2).Draw(t, "keepAlive") != 0 {
			o.Kind = 2 // terminate is rare so that long live histories exist
		}
		if o.Kind != 3 {
			// mostly amounts that fit / are held, so that the held amount moves through its whole range
			o.Mode = rapid.SampledFrom([]int{4, 4, 4, 4, 1, 1, 0, 0, 2, 3, 5}).Draw(t, "mode")
			o.Num = rapid.IntRange(0, int(c.Cap.Num)+1).Draw(t, "num")
			o.Size = rapid.IntRange(0, int(c.Cap.Size)+2).Draw(t, "size")
			if o.Mode == 5 {
				o.Num = rapid.IntRange(0, 1<<20).Draw(t, "bigNum")
				o.Size = rapid.IntRange(0, 1<<30).Draw(t, "bigSize")
			}
		}
		if o.Kind == 1 {
			o.Timeout = rapid.IntRange(0, 4).Draw(t, "timeoutSel")
		}
		c.Ops = append(c.Ops, o)
	}
	return c
}

// resolve turns the drawn numbers into an amount relative to the model state.
func (o seqOp) resolve(cap, held metric, terminated bool) metric {
	raw := mk(o.Num, o.Size)
	if o.Kind == 2 {
		switch o.Mode {
		case 1: // everything that is held
			return held
		case 2: // one event too many
			return plus(held, mk(1, 0))
		case 3: // one byte too many
			return plus(held, mk(0, 1))
		case 4: // a part of what is held
			return metric{Num: raw.Num % (held.Num + 1), Size: raw.Size % (held.Size + 1)}
		}
		return raw
	}
	if !terminated && le(held, cap) {
		avail := minus(cap, held)
		switch o.Mode {
		case 1: // exactly what is left
			return avail
		case 2:
			return plus(avail, mk(1, 0))
		case 3:
			return plus(avail, mk(0, 1))
		case 4: // something that fits
			return metric{Num: raw.Num % (avail.Num + 1), Size: raw.Size % (avail.Size + 1)}
		}
	}
	return raw
}

type warnRec struct{ received, processing, releasing metric }

type seqInfo struct {
	overRelease, terminated, exactFit, refusedAboveCap, timedOut, refusedAfterTerm, grantedAcquire, longTimeoutUsed bool
	trace                                                                                                           []string
}

// runSeq executes a history against a fresh semaphore and the counter model.
func runSeq(c seqCase) (v verdict, info seqInfo, overloaded bool) {
	canaryReset()
	var warns []warnRec
	sem := datasemaphore.New(c.Cap, func(received, processing, releasing metric) {
		warns = append(warns, warnRec{received, processing, releasing})
	})
	capacity, held, terminated := c.Cap, metric{}, false
	tr := func(f string, a ...interface{}) { info.trace = append(info.trace, fmt.Sprintf(f, a...)) }

	for _, o := range c.Ops {
		nWarn := len(warns)
		switch o.Kind {
		case 0, 1:
			w := o.resolve(capacity, held, terminated)
			// the model, from the property text
			aboveCap := w.Num > capacity.Num || w.Size > capacity.Size
			fits := !terminated && le(plus(held, w), capacity)
			unspecified := terminated && isEmpty(w) // the text only speaks about non-empty requests after termination
			var got bool
			if o.Kind == 0 {
				got = sem.TryAcquire(w)
				tr("try(%v)=%v", w, got)
			} else {
				immediate := fits || aboveCap || (terminated && !isEmpty(w))
				var timeout time.Duration
				if immediate {
					timeout = []time.Duration{-time.Millisecond, 0, time.Millisecond, 20 * time.Millisecond, longTimeout}[o.Timeout]
					info.longTimeoutUsed = info.longTimeoutUsed || timeout == longTimeout
				} else {
					timeout = []time.Duration{-3 * time.Millisecond, 0, time.Millisecond, 2 * time.Millisecond, 4 * time.Millisecond}[o.Timeout]
				}
				limit := hangAfter
				if !immediate && timeout > 0 {
					limit += timeout
				}
				var elapsed time.Duration
				var hung bool
				got, elapsed, hung = acquireWD(sem, w, timeout, limit)
				tr("acquire(%v,%v)=%v after %s", w, timeout, got, ms(elapsed))
				if hung {
					v.timingf("Acquire(%v, %v) with held=%v capacity=%v terminated=%v was still blocked after %s (unblocked by the watchdog)", w, timeout, held, capacity, terminated, ms(elapsed))
					return v, info, canaryOverslept() > canaryLimit
				}
				switch {
				case immediate && elapsed > immediateBound:
					v.timingf("Acquire(%v, %v) with held=%v capacity=%v terminated=%v has an immediate answer but took %s", w, timeout, held, capacity, terminated, ms(elapsed))
				case !immediate && !unspecified && elapsed < timeout:
					v.hardf("Acquire(%v, %v) with held=%v capacity=%v returned %v after %s, earlier than its timeout", w, timeout, held, capacity, got, ms(elapsed))
				case !immediate && elapsed > timeout+deadlineBound(timeout):
					v.timingf("Acquire(%v, %v) with held=%v capacity=%v returned after %s, long after its timeout", w, timeout, held, capacity, ms(elapsed))
				}
				if !immediate && !unspecified {
					info.timedOut = true
				}
				if fits {
					info.grantedAcquire = true
				}
			}
			if unspecified {
				// an empty request changes nothing whether it is granted or not
				break
			}
			if got != fits {
				v.hardf("%s(%v) = %v with held=%v capacity=%v terminated=%v; the counter model says %v", kindNames[o.Kind], w, got, held, capacity, terminated, fits)
				return v, info, false
			}
			if fits {
				held = plus(held, w)
				if !isEmpty(w) && held == capacity {
					info.exactFit = true
				}
			} else if terminated {
				info.refusedAfterTerm = true
			} else if aboveCap {
				info.refusedAboveCap = true
			}
		case 2:
			w := o.resolve(capacity, held, terminated)
			over := w.Num > held.Num || w.Size > held.Size
			before := held
			sem.Release(w)
			tr("release(%v)", w)
			if over {
				held = metric{}
				info.overRelease = true
				if len(warns) != nWarn+1 {
					v.hardf("Release(%v) with held=%v is an over-release but produced %d warnings instead of 1", w, before, len(warns)-nWarn)
					return v, info, false
				}
				if wr := warns[nWarn]; wr.processing != before || wr.releasing != w {
					v.hardf("Release(%v) with held=%v reported warning(processing=%v, releasing=%v)", w, before, wr.processing, wr.releasing)
					return v, info, false
				}
			} else {
				held = minus(held, w)
				if len(warns) != nWarn {
					v.hardf("Release(%v) with held=%v is not an over-release but produced a warning", w, before)
					return v, info, false
				}
			}
		case 3:
			sem.Terminate()
			terminated = true
			info.terminated = true
			tr("terminate()")
		}
		if o.Kind != 2 && len(warns) != nWarn {
			v.hardf("%s produced a warning although nothing was released", kindNames[o.Kind])
			return v, info, false
		}
		if got := sem.Processing(); got != held {
			v.hardf("Processing() = %v after [%s]; the counter model holds %v", got, strings.Join(info.trace, " "), held)
			return v, info, false
		}
		if !terminated {
			if !le(held, capacity) {
				v.hardf("held amount %v exceeds the capacity %v", held, capacity)
				return v, info, false
			}
			if got, want := sem.Available(), minus(capacity, held); got != want {
				v.hardf("Available() = %v after [%s]; capacity %v minus held %v is %v", got, strings.Join(info.trace, " "), capacity, held, want)
				return v, info, false
			}
		}
	}
	return v, info, len(v.timing) > 0 && canaryOverslept() > canaryLimit
}

var stSeq = stats.New("sequential")

func (c seqCase) String() string {
	var sb strings.Builder
	fmt.Fprintf(&sb, "capacity=%v ops:", c.Cap)
	for _, o := range c.Ops {
		if o.Kind == 3 {
			sb.WriteString(" terminate")
			continue
		}
		fmt.Fprintf(&sb, " %s(mode=%d,num=%d,size=%d", kindNames[o.Kind], o.Mode, o.Num, o.Size)
		if o.Kind == 1 {
			fmt.Fprintf(&sb, ",timeoutSel=%d", o.Timeout)
		}
		sb.WriteString(")")
	}
	return sb.String()
}

// TestC30Sequential: single-threaded histories against the counter model.
func TestC30Sequential(t *testing.T) {
	rapid.Check(t, func(t *rapid.T) {
		c := genSeq(t)
		v, info, overloaded := runSeq(c)
		desc := func() string { return c.String() + "\n  executed: " + strings.Join(info.trace, " ") }
		if !decide(t, stSeq, c.String(), desc(), v, overloaded, func() (verdict, bool) {
			v2, _, ov := runSeq(c)
			return v2, ov
		}) {
			return
		}
		var classes []string
		add := func(b bool, s string) {
			if b {
				classes = append(classes, s)
			}
		}
		add(info.overRelease, "over_release")
		add(info.terminated, "terminate")
		add(info.exactFit, "grant_filling_capacity_exactly")
		add(info.refusedAboveCap, "refused_above_capacity")
		add(info.timedOut, "acquire_timed_out")
		add(info.grantedAcquire, "acquire_granted_immediately")
		add(info.refusedAfterTerm, "refused_after_terminate")
		add(info.longTimeoutUsed, "immediate_answer_with_1h_timeout")
		stSeq.Case(stats.Hash(c), info.overRelease, classes...)
		stSeq.Sample(func() interface{} { return map[string]interface{}{"capacity": c.Cap.String(), "executed": info.trace} })
	})
}

// ---------------------------------------------------------------------------------------------
// blocking scenarios

type waiter struct {
	Req     metric
	Timeout time.Duration
}

const (
	actNone = iota
	actRelease
	actTerminate
)

type scenario struct {
	Kind    string
	Cap     metric
	Held    metric // acquired before the waiters start
	W       []waiter
	Stagger time.Duration // pause between the starts of the waiters
	Action  int
	Rel     metric        // released amount (<= Held unless Over)
	Over    bool          // Rel exceeds whatever can be held when it is released: the held amount is reset to zero, one warning
	Delay   time.Duration // pause before the action
}

func (s scenario) String() string {
	var sb strings.Builder
	fmt.Fprintf(&sb, "[%s] capacity=%v held=%v", s.Kind, s.Cap, s.Held)
	for i, w := range s.W {
		fmt.Fprintf(&sb, " waiter%d=Acquire(%v,%v)", i, w.Req, w.Timeout)
	}
	switch s.Action {
	case actNone:
		sb.WriteString(" action=none")
	case actRelease:
		fmt.Fprintf(&sb, " action=Release(%v) after %v", s.Rel, s.Delay)
		if s.Over {
			sb.WriteString(" (over-release)")
		}
	case actTerminate:
		fmt.Fprintf(&sb, " action=Terminate() after %v", s.Delay)
	}
	return sb.String()
}

// afterAction is the held amount right after the action when no waiter has been granted.
func (s scenario) afterAction() metric {
	switch {
	case s.Action == actRelease && s.Over:
		return metric{}
	case s.Action == actRelease:
		return minus(s.Held, s.Rel)
	}
	return s.Held
}

func exceeds(req, cap metric) bool { return req.Num > cap.Num || req.Size > cap.Size }

func drawUpTo(t *rapid.T, label string, hi metric) metric {
	return mk(rapid.IntRange(0, int(hi.Num)).Draw(t, label+".num"), rapid.IntRange(0, int(hi.Size)).Draw(t, label+".size"))
}

var scenarioKinds = []string{"never_release", "release_enough", "release_too_little", "terminate", "above_capacity", "fits_at_once", "over_release"}

func genScenario(t *rapid.T) scenario {
	var s scenario
	s.Kind = rapid.SampledFrom(scenarioKinds).Draw(t, "kind")
	s.Cap = mk(rapid.IntRange(1, 4).Draw(t, "capNum"), rapid.IntRange(1, 8).Draw(t, "capSize"))
	s.Stagger = time.Duration(rapid.IntRange(0, 2).Draw(t, "staggerMs")) * time.Millisecond
	s.Delay = time.Duration(rapid.IntRange(0, 8).Draw(t, "delayMs")) * time.Millisecond

	// a non-empty request within the capacity, and a held amount that blocks it in one dimension
	blocked := func() (req, held metric, blockNum bool) {
		req = drawUpTo(t, "req", s.Cap)
		if isEmpty(req) {
			req.Num = 1
		}
		blockNum = req.Num > 0 && (req.Size == 0 || rapid.Bool().Draw(t, "blockNum"))
		held = drawUpTo(t, "held", s.Cap)
		if blockNum {
			held.Num = idx.Event(rapid.IntRange(int(s.Cap.Num-req.Num)+1, int(s.Cap.Num)).Draw(t, "heldNum"))
		} else {
			held.Size = uint64(rapid.IntRange(int(s.Cap.Size-req.Size)+1, int(s.Cap.Size)).Draw(t, "heldSize"))
		}
		return
	}
	// smallest release (per dimension) after which req fits
	deficit := func(req, held metric) metric {
		var d metric
		if held.Num+req.Num > s.Cap.Num {
			d.Num = held.Num + req.Num - s.Cap.Num
		}
		if held.Size+req.Size > s.Cap.Size {
			d.Size = held.Size + req.Size - s.Cap.Size
		}
		return d
	}
	var req metric
	switch s.Kind {
	case "never_release":
		req, s.Held, _ = blocked()
	case "release_enough":
		req, s.Held, _ = blocked()
		d := deficit(req, s.Held)
		s.Action = actRelease
		s.Rel = mk(rapid.IntRange(int(d.Num), int(s.Held.Num)).Draw(t, "relNum"), rapid.IntRange(int(d.Size), int(s.Held.Size)).Draw(t, "relSize"))
	case "over_release":
		// a waiter is blocked and the release is larger than what is held (drawn below, once the
		// second waiter is known): everything is dropped, so the waiter fits afterwards
		req, s.Held, _ = blocked()
		s.Action = actRelease
		s.Over = true
	case "release_too_little":
		var blockNum bool
		req, s.Held, blockNum = blocked()
		d := deficit(req, s.Held)
		s.Action = actRelease
		s.Rel = drawUpTo(t, "rel", s.Held)
		if blockNum {
			s.Rel.Num = idx.Event(rapid.IntRange(0, int(d.Num)-1).Draw(t, "relNum"))
		} else {
			s.Rel.Size = uint64(rapid.IntRange(0, int(d.Size)-1).Draw(t, "relSize"))
		}
	case "terminate":
		s.Action = actTerminate
		if rapid.IntRange(0, 3).Draw(t, "blockedBefore") != 0 {
			req, s.Held, _ = blocked()
		} else {
			s.Held = drawUpTo(t, "held", s.Cap)
			req = drawUpTo(t, "req", plus(s.Cap, mk(1, 1)))
		}
	case "above_capacity":
		s.Held = drawUpTo(t, "held", s.Cap)
		req = drawUpTo(t, "req", plus(s.Cap, mk(1, 2)))
		if rapid.Bool().Draw(t, "tooManyEvents") {
			req.Num = s.Cap.Num + idx.Event(rapid.IntRange(1, 3).Draw(t, "excessNum"))
		} else {
			req.Size = s.Cap.Size + uint64(rapid.IntRange(1, 1000).Draw(t, "excessSize"))
		}
		s.Action = rapid.IntRange(0, 2).Draw(t, "action")
		if s.Action == actRelease {
			s.Rel = drawUpTo(t, "rel", s.Held)
		}
	case "fits_at_once":
		s.Held = drawUpTo(t, "held", s.Cap)
		req = drawUpTo(t, "req", minus(s.Cap, s.Held))
		s.Action = rapid.SampledFrom([]int{actNone, actNone, actRelease, actTerminate}).Draw(t, "action")
		if s.Action == actRelease {
			s.Rel = drawUpTo(t, "rel", s.Held)
		}
	}
	s.W = []waiter{{Req: req}}
	if rapid.IntRange(0, 9).Draw(t, "secondWaiter") < 4 {
		s.W = append(s.W, waiter{Req: drawUpTo(t, "req2", plus(s.Cap, mk(1, 1)))})
		if rapid.IntRange(0, 2).Draw(t, "competitor") == 0 && s.Action != actTerminate {
			// the second waiter wants everything that is (or becomes) available: at most one of the two can win
			if left := minus(s.Cap, s.afterAction()); !isEmpty(left) {
				s.W[1].Req = left
			}
		}
	}
	if s.Over {
		// larger, in one dimension, than anything that can be held when Release is called (the
		// second waiter may have been granted before): an over-release in every interleaving
		most := s.Held
		if len(s.W) == 2 && le(plus(s.Held, s.W[1].Req), s.Cap) {
			most = plus(most, s.W[1].Req)
		}
		s.Rel = drawUpTo(t, "rel", plus(s.Cap, mk(1, 1)))
		if rapid.Bool().Draw(t, "overNum") {
			s.Rel.Num = most.Num + idx.Event(rapid.IntRange(1, 3).Draw(t, "overBy"))
		} else {
			s.Rel.Size = most.Size + uint64(rapid.IntRange(1, 3).Draw(t, "overBy"))
		}
	}
	// timeouts: 5-40 ms (sometimes zero or negative); "no limit" (one hour, or the very large values
	// callers use for it) only where the caller has to return for another reason whatever the other
	// waiter does
	after := s.afterAction()
	for i := range s.W {
		r := s.W[i].Req
		worst := after
		if len(s.W) == 2 && !exceeds(s.W[1-i].Req, s.Cap) {
			worst = plus(worst, s.W[1-i].Req)
		}
		mustReturn := exceeds(r, s.Cap) ||
			(s.Action == actTerminate && !isEmpty(r)) ||
			(s.Action != actTerminate && le(plus(worst, r), s.Cap))
		sel := rapid.IntRange(0, 9).Draw(t, fmt.Sprintf("timeoutSel%d", i))
		switch {
		case mustReturn && sel < 5:
			s.W[i].Timeout = rapid.SampledFrom(longTimeouts).Draw(t, fmt.Sprintf("noLimit%d", i))
		case sel == 9:
			s.W[i].Timeout = time.Duration(rapid.IntRange(-3, 0).Draw(t, "nonPositiveMs")) * time.Millisecond
		default:
			s.W[i].Timeout = time.Duration(rapid.IntRange(5, 40).Draw(t, fmt.Sprintf("timeoutMs%d", i))) * time.Millisecond
		}
	}
	return s
}

type outcome struct {
	start, ret time.Duration // relative to the scenario's base time
	res        bool
	hung       bool
}

type timedInfo struct {
	out            []outcome
	aStart, aEnd   time.Duration
	classes        map[string]bool
	blockedNoHelp  bool // some waiter had to wait with no enabling release
	final, finalOK metric
}

// runScenario executes a blocking scenario once and judges it.
func runScenario(s scenario) (v verdict, info timedInfo, overloaded bool) {
	info.classes = map[string]bool{}
	canaryReset()
	var warnings atomic.Int64
	sem := datasemaphore.New(s.Cap, func(_, _, _ metric) { warnings.Add(1) })
	if !sem.TryAcquire(s.Held) {
		v.hardf("TryAcquire(%v) on a fresh semaphore with capacity %v was refused", s.Held, s.Cap)
		return
	}
	base := time.Now()
	info.out = make([]outcome, len(s.W))
	done := make([]chan struct{}, len(s.W))
	for i := range s.W {
		if i > 0 && s.Stagger > 0 {
			time.Sleep(s.Stagger)
		}
		done[i] = make(chan struct{})
		go func(i int) {
			o := &info.out[i]
			o.start = time.Since(base)
			o.res = sem.Acquire(s.W[i].Req, s.W[i].Timeout)
			o.ret = time.Since(base)
			close(done[i])
		}(i)
	}
	terminated := false
	if s.Action != actNone {
		if s.Delay > 0 {
			time.Sleep(s.Delay)
		}
		if p := sem.Processing(); !le(p, s.Cap) {
			v.hardf("Processing() = %v exceeds the capacity %v while waiters are pending", p, s.Cap)
		}
		info.aStart = time.Since(base)
		if s.Action == actRelease {
			sem.Release(s.Rel)
		} else {
			sem.Terminate()
			terminated = true
		}
		info.aEnd = time.Since(base)
		if p := sem.Processing(); !terminated && !le(p, s.Cap) {
			v.hardf("Processing() = %v exceeds the capacity %v after Release(%v)", p, s.Cap, s.Rel)
		}
	}
	// watchdog: every waiter has to be back hangAfter after the latest moment the property allows
	var maxShort time.Duration
	for _, w := range s.W {
		if !isLong(w.Timeout) && w.Timeout > maxShort {
			maxShort = w.Timeout
		}
	}
	wd := time.NewTimer(maxShort + hangAfter)
	defer wd.Stop()
	expired := false
	for i := range s.W {
		if !expired {
			select {
			case <-done[i]:
				continue
			case <-wd.C:
				expired = true
			}
		}
		select {
		case <-done[i]:
		default:
			info.out[i].hung = true
		}
	}
	if expired {
		blockedFor := time.Since(base)
		unblock(sem)
		for i := range s.W {
			if info.out[i].hung {
				select {
				case <-done[i]:
				case <-time.After(5 * time.Second):
				}
				v.timingf("waiter%d Acquire(%v,%v) was still blocked %s after its start (unblocked by the watchdog with Terminate+Release)", i, s.W[i].Req, s.W[i].Timeout, ms(blockedFor))
			}
		}
		return v, info, canaryOverslept() > canaryLimit
	}

	// ---- oracle ----
	after := s.afterAction()
	final := after
	alt := after // over-release: a grant that may have happened before the release was dropped with the rest
	ambiguous := false
	for i, w := range s.W {
		o := info.out[i]
		if !o.res {
			continue
		}
		final = plus(final, w.Req)
		switch {
		case !s.Over || !le(plus(s.Held, w.Req), s.Cap) || o.start > info.aEnd:
			alt = plus(alt, w.Req) // cannot have been granted before the release
		case o.ret < info.aStart:
			final = minus(final, w.Req) // granted before the release for sure
		default:
			ambiguous = true
		}
	}
	info.final = sem.Processing()
	if info.final != final && !(ambiguous && info.final == alt) {
		v.hardf("Processing() = %v at the end; held %v, released %v (over-release: %v) and the granted requests give %v", info.final, s.Held, s.Rel, s.Over, final)
	} else {
		final = info.final
	}
	info.finalOK = final
	if !terminated && !le(final, s.Cap) {
		v.hardf("granted requests bring the held amount to %v, above the capacity %v", final, s.Cap)
	}
	if n := warnings.Load(); !s.Over && n != 0 {
		v.hardf("%d over-release warnings although never more than the held amount was released", n)
	} else if s.Over && n != 1 {
		v.hardf("%d warnings for one over-release Release(%v) with held %v", n, s.Rel, s.Held)
	}
	for i, w := range s.W {
		o := info.out[i]
		name := fmt.Sprintf("waiter%d Acquire(%v,%v) [start %s, return %s, result %v; action %s..%s]", i, w.Req, w.Timeout, ms(o.start), ms(o.ret), o.res, ms(info.aStart), ms(info.aEnd))
		took := o.ret - o.start
		wt := clampLong(w.Timeout)
		tpos := wt
		if tpos < 0 {
			tpos = 0
		}
		switch {
		case exceeds(w.Req, s.Cap):
			info.classes["refused_above_capacity"] = true
			if o.res {
				v.hardf("%s: granted a request above the capacity %v", name, s.Cap)
			} else if took > immediateBound {
				v.timingf("%s: a request above the capacity has to be refused at once, took %s", name, ms(took))
			}
		case o.res:
			fitsAtStart := le(plus(s.Held, w.Req), s.Cap)
			switch s.Action {
			case actNone, actTerminate:
				if !fitsAtStart {
					v.hardf("%s: granted although held %v + request never fitted capacity %v", name, s.Held, s.Cap)
				}
				if s.Action == actTerminate && !isEmpty(w.Req) && o.start > info.aEnd {
					v.hardf("%s: non-empty request granted after Terminate had returned", name)
				}
			case actRelease:
				if !le(plus(after, w.Req), s.Cap) {
					v.hardf("%s: granted although it does not fit even after Release(%v)", name, s.Rel)
				} else if !fitsAtStart && o.ret < info.aStart {
					v.hardf("%s: granted before the enabling Release(%v) was called", name, s.Rel)
				}
			}
			// granted at the first attempt or at the wake-up by the release, whichever is later
			ref := o.start
			if s.Action == actRelease && info.aEnd > ref {
				ref = info.aEnd
			}
			if s.Action == actRelease && !fitsAtStart {
				info.classes["granted_after_release"] = true
				if s.Over {
					info.classes["granted_after_over_release"] = true
				}
				if w.Timeout > longTimeout {
					info.classes["granted_after_release_huge_timeout"] = true
				}
			} else {
				info.classes["granted_at_once"] = true
			}
			if o.ret-ref > immediateBound {
				v.timingf("%s: granted %s after it became possible", name, ms(o.ret-ref))
			}
		case terminated && isEmpty(w.Req):
			// the property does not speak about empty requests after termination
		case terminated:
			info.classes["refused_by_terminate_or_timeout"] = true
			if o.ret < info.aStart && took < wt {
				v.hardf("%s: refused before its timeout and before Terminate was called", name)
			}
			lim := o.start + tpos + deadlineBound(tpos)
			ref := o.start
			if info.aEnd > ref {
				ref = info.aEnd
			}
			if ref+immediateBound < lim {
				lim = ref + immediateBound
			}
			if o.ret > lim {
				v.timingf("%s: returned %s after Terminate", name, ms(o.ret-ref))
			}
			if o.start < info.aStart {
				info.blockedNoHelp = true
				if isLong(w.Timeout) || o.start+wt > info.aEnd {
					info.classes["unblocked_by_terminate"] = true
				}
			}
		default: // refused, within capacity, not terminated
			info.classes["timed_out"] = true
			if took < wt {
				v.hardf("%s: returned false after %s, earlier than its timeout", name, ms(took))
			}
			if le(plus(final, w.Req), s.Cap) && (s.Action == actNone || info.aEnd < o.start+wt) {
				v.hardf("%s: refused although the request fitted (held at the end %v, capacity %v) and the release had finished before its deadline", name, final, s.Cap)
			}
			if s.Action == actRelease && info.aEnd >= o.start+wt {
				info.classes["action_after_deadline"] = true
			}
			if took > tpos+deadlineBound(tpos) {
				v.timingf("%s: returned %s after its timeout", name, ms(took-tpos))
			}
			if wt > 0 {
				info.blockedNoHelp = true
			}
		}
	}
	return v, info, len(v.timing) > 0 && canaryOverslept() > canaryLimit
}

var stTimed = stats.New("blocking")

func timedProp(t *rapid.T) {
	s := genScenario(t)
	v, info, overloaded := runScenario(s)
	if !decide(t, stTimed, s.String(), s.String(), v, overloaded, func() (verdict, bool) {
		v2, _, ov := runScenario(s)
		return v2, ov
	}) {
		return
	}
	classes := []string{"kind_" + s.Kind}
	for c := range info.classes {
		classes = append(classes, c)
	}
	if len(s.W) == 2 {
		classes = append(classes, "two_waiters")
		a, b := s.W[0].Req, s.W[1].Req
		after := s.afterAction()
		if s.Action != actTerminate && le(plus(after, a), s.Cap) && le(plus(after, b), s.Cap) && !le(plus(plus(after, a), b), s.Cap) {
			classes = append(classes, "two_waiters_compete")
		}
	}
	for _, w := range s.W {
		if isLong(w.Timeout) {
			classes = append(classes, "one_hour_timeout")
			break
		}
	}
	for _, w := range s.W {
		if w.Timeout > longTimeout {
			classes = append(classes, "huge_timeout")
			break
		}
	}
	if info.blockedNoHelp {
		classes = append(classes, "waited_without_enabling_release")
	}
	stTimed.Case(stats.Hash(s), info.blockedNoHelp, classes...)
	stTimed.Sample(func() interface{} {
		outs := []string{}
		for i, o := range info.out {
			outs = append(outs, fmt.Sprintf("waiter%d: %v after %s", i, o.res, ms(o.ret-o.start)))
		}
		return map[string]interface{}{"scenario": s.String(), "outcomes": outs}
	})
}

// TestC30Timed: waiters blocked in Acquire, judged from time stamps.
func TestC30Timed(t *testing.T) {
	rapid.Check(t, timedProp)
}

var stReg = stats.New("regression")

// TestC30Regression: the hand-written witnesses of finding F10 (Acquire ignored its timeout when
// nothing was released) and of the sensitivity mutations, run through the same oracle.
func TestC30Regression(t *testing.T) {
	cases := []scenario{
		{Kind: "never_release", Cap: mk(2, 10), Held: mk(2, 10), W: []waiter{{Req: mk(1, 1), Timeout: 20 * time.Millisecond}}},
		{Kind: "release_too_little", Cap: mk(3, 10), Held: mk(3, 4), W: []waiter{{Req: mk(2, 1), Timeout: 15 * time.Millisecond}}, Action: actRelease, Rel: mk(1, 4), Delay: 2 * time.Millisecond},
		{Kind: "terminate", Cap: mk(1, 5), Held: mk(1, 5), W: []waiter{{Req: mk(1, 1), Timeout: longTimeout}}, Action: actTerminate, Delay: 3 * time.Millisecond},
		{Kind: "release_enough", Cap: mk(2, 8), Held: mk(2, 8), W: []waiter{{Req: mk(2, 8), Timeout: longTimeout}}, Action: actRelease, Rel: mk(2, 8), Delay: 3 * time.Millisecond},
		// "no limit" written as the largest Duration: granted after the release, not refused
		{Kind: "release_enough", Cap: mk(2, 8), Held: mk(2, 3), W: []waiter{{Req: mk(1, 1), Timeout: time.Duration(math.MaxInt64)}}, Action: actRelease, Rel: mk(1, 0), Delay: 3 * time.Millisecond},
		// an over-release drops everything: the blocked caller is granted right after it
		{Kind: "over_release", Cap: mk(2, 8), Held: mk(2, 3), W: []waiter{{Req: mk(1, 1), Timeout: longTimeout}}, Action: actRelease, Rel: mk(3, 0), Over: true, Delay: 3 * time.Millisecond},
	}
	for _, s := range cases {
		failures := 0
		var last verdict
		for attempt := 0; attempt <= refails; attempt++ {
			v, info, overloaded := runScenario(s)
			if len(v.hard) > 0 {
				t.Fatalf("C30 violation:\n  %s\n  case: %s", strings.Join(v.hard, "\n  "), s)
			}
			if len(v.timing) == 0 {
				stReg.Case(stats.Hash(s), info.blockedNoHelp, "kind_"+s.Kind)
				stReg.Sample(func() interface{} { return s.String() })
				break
			}
			if overloaded {
				stReg.Inconclusive()
				break
			}
			failures++
			last = v
		}
		if failures > refails {
			t.Fatalf("C30 deadline violation (failed %d times in a row, canary quiet):\n  %s\n  case: %s", failures, strings.Join(last.timing, "\n  "), s)
		}
	}
}
