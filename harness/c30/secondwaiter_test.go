package c30

import (
	"fmt"
	"testing"
	"time"

	"pgregory.net/rapid"

	"verif/harness/internal/stats"
)

var stSecond = stats.New("second_waiter_fits")

// genSecondFits: the semaphore is full; an older waiter asks for more than will be released and waits long
// (1.6-1.8 s, well beyond the "as soon as" bound of 1 s); a younger waiter's request fits once the release
// happened. The younger waiter has to be granted as soon as the release happened - also when the wake-up
// of the release reaches the older waiter first.
func genSecondFits(t *rapid.T) scenario {
	var s scenario
	s.Kind = "second_waiter_fits_first_does_not"
	capNum := rapid.IntRange(2, 4).Draw(t, "capNum")
	capSize := rapid.IntRange(2, 8).Draw(t, "capSize")
	s.Cap = mk(capNum, capSize)
	s.Held = s.Cap
	relNum := rapid.IntRange(1, capNum-1).Draw(t, "relNum")
	relSize := rapid.IntRange(1, capSize).Draw(t, "relSize")
	s.Action = actRelease
	s.Rel = mk(relNum, relSize)
	s.Stagger = time.Duration(rapid.IntRange(2, 4).Draw(t, "staggerMs")) * time.Millisecond
	s.Delay = time.Duration(rapid.IntRange(4, 10).Draw(t, "delayMs")) * time.Millisecond
	first := mk(rapid.IntRange(relNum+1, capNum).Draw(t, "req0Num"), rapid.IntRange(0, capSize).Draw(t, "req0Size"))
	second := mk(rapid.IntRange(1, relNum).Draw(t, "req1Num"), rapid.IntRange(0, relSize).Draw(t, "req1Size"))
	s.W = []waiter{
		{Req: first, Timeout: time.Duration(1600+rapid.IntRange(0, 200).Draw(t, "req0TimeoutExtraMs")) * time.Millisecond},
		{Req: second, Timeout: longTimeout},
	}
	return s
}

// TestC30SecondWaiterFits: "grants a fitting request ... as soon as enough is released" with two blocked callers.
func TestC30SecondWaiterFits(t *testing.T) {
	rapid.Check(t, func(t *rapid.T) {
		s := genSecondFits(t)
		v, info, overloaded := runScenario(s)
		if !decide(t, stSecond, s.String(), s.String(), v, overloaded, func() (verdict, bool) {
			v2, _, ov := runScenario(s)
			return v2, ov
		}) {
			return
		}
		stSecond.Case(stats.Hash(s), true, "kind_"+s.Kind)
		stSecond.Sample(func() interface{} {
			outs := []string{}
			for i, o := range info.out {
				outs = append(outs, fmt.Sprintf("waiter%d: %v after %s", i, o.res, ms(o.ret-o.start)))
			}
			return map[string]interface{}{"scenario": s.String(), "outcomes": outs}
		})
	})
}
