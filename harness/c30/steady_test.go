package c30

import (
	"fmt"
	"sync/atomic"
	"testing"
	"time"

	"github.com/Fantom-foundation/lachesis-base/utils/datasemaphore"
	"pgregory.net/rapid"

	"verif/harness/internal/stats"
)

var stSteady = stats.New("steady_small_releases")

type steadyCase struct {
	Cap, Held, Req, Churn metric
	TimeoutMs, EveryMs    int
}

func (c steadyCase) String() string {
	return fmt.Sprintf("capacity=%v held=%v waiter=Acquire(%v,%dms) while another caller acquires and releases %v every %dms", c.Cap, c.Held, c.Req, c.TimeoutMs, c.Churn, c.EveryMs)
}

// runSteady: a waiter whose request fits the capacity but not the free room, while other callers keep
// acquiring and releasing small amounts (never enough for the waiter) more often than the waiter's timeout.
// The waiter must be refused, no earlier than its timeout and shortly after it (bound 10*T + 1 s) - the
// steady traffic must not postpone that. The traffic goes on until the waiter is back or the bound passed.
func runSteady(c steadyCase) (v verdict, took time.Duration, overloaded bool) {
	canaryReset()
	sem := datasemaphore.New(c.Cap, nil)
	if !sem.TryAcquire(c.Held) {
		v.hardf("TryAcquire(%v) on a fresh semaphore with capacity %v was refused", c.Held, c.Cap)
		return
	}
	T := time.Duration(c.TimeoutMs) * time.Millisecond
	limit := T + deadlineBound(T)
	var stop atomic.Bool
	churnDone := make(chan struct{})
	go func() {
		defer close(churnDone)
		for !stop.Load() {
			if sem.TryAcquire(c.Churn) {
				sem.Release(c.Churn)
			}
			time.Sleep(time.Duration(c.EveryMs) * time.Millisecond)
		}
	}()
	res, elapsed, hung := acquireWD(sem, c.Req, T, limit+500*time.Millisecond)
	stop.Store(true)
	<-churnDone
	took = elapsed
	if hung {
		v.timingf("Acquire(%v, %v) had not returned %s after its timeout although the request never fitted (steady small releases every %dms)", c.Req, T, ms(elapsed-T), c.EveryMs)
		sem.Terminate()
	} else {
		if res {
			v.hardf("Acquire(%v) was granted although held %v + request never fitted the capacity %v", c.Req, c.Held, c.Cap)
		}
		if elapsed < T {
			v.hardf("Acquire returned false after %s, earlier than its timeout %v", ms(elapsed), T)
		}
		if elapsed > limit {
			v.timingf("Acquire returned %s after its timeout %v (bound %v)", ms(elapsed-T), T, deadlineBound(T))
		}
	}
	return v, took, len(v.timing) > 0 && canaryOverslept() > canaryLimit
}

// TestC30SteadyReleases: "refuses a request that ... is still unsatisfied when its timeout expires, returning
// shortly after the timeout" under steady concurrent releases that never satisfy the waiter.
func TestC30SteadyReleases(t *testing.T) {
	rapid.Check(t, func(t *rapid.T) {
		var c steadyCase
		capNum := rapid.IntRange(4, 10).Draw(t, "capNum")
		capSize := rapid.IntRange(100, 1000).Draw(t, "capSize")
		c.Cap = mk(capNum, capSize)
		free := rapid.IntRange(1, capNum/2).Draw(t, "freeNum")
		c.Held = mk(capNum-free, capSize/2)
		c.Req = mk(rapid.IntRange(free+1, capNum).Draw(t, "reqNum"), rapid.IntRange(0, capSize/2).Draw(t, "reqSize"))
		c.Churn = mk(rapid.IntRange(1, free).Draw(t, "churnNum"), rapid.IntRange(0, capSize/4).Draw(t, "churnSize"))
		c.TimeoutMs = rapid.IntRange(40, 120).Draw(t, "timeoutMs")
		c.EveryMs = rapid.IntRange(2, c.TimeoutMs/3).Draw(t, "everyMs")
		v, took, overloaded := runSteady(c)
		if !decide(t, stSteady, c.String(), c.String(), v, overloaded, func() (verdict, bool) {
			v2, _, ov := runSteady(c)
			return v2, ov
		}) {
			return
		}
		stSteady.Case(stats.Hash(c), true, "steady_releases_never_enough")
		stSteady.Sample(func() interface{} {
			return map[string]interface{}{"case": c.String(), "returned_false_after": ms(took)}
		})
	})
}
