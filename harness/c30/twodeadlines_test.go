package c30

import (
	"fmt"
	"testing"
	"time"

	"pgregory.net/rapid"

	"verif/harness/internal/stats"
)

var stTwoDl = stats.New("two_deadlines")

// genTwoDeadlines: the semaphore is full and nothing is released. A first caller blocks with a short timeout; a
// second caller blocks a little later with a timeout that ends 1.6-1.8 s after the first one's (well beyond the
// "shortly after" bound of 1 s). Each of them has to return false shortly after its OWN timeout, whoever blocked
// last. (Drawn: the later caller may also be the one with the nearer deadline.)
func genTwoDeadlines(t *rapid.T) scenario {
	var s scenario
	s.Kind = "two_blocked_callers_with_different_deadlines"
	capNum := rapid.IntRange(1, 4).Draw(t, "capNum")
	capSize := rapid.IntRange(1, 8).Draw(t, "capSize")
	s.Cap = mk(capNum, capSize)
	s.Held = s.Cap
	s.Action = actNone
	s.Stagger = time.Duration(rapid.IntRange(2, 30).Draw(t, "staggerMs")) * time.Millisecond
	short := time.Duration(rapid.IntRange(40, 120).Draw(t, "shortTimeoutMs")) * time.Millisecond
	long := short + time.Duration(1600+rapid.IntRange(0, 200).Draw(t, "extraMs"))*time.Millisecond
	r0 := mk(rapid.IntRange(1, capNum).Draw(t, "req0Num"), rapid.IntRange(0, capSize).Draw(t, "req0Size"))
	r1 := mk(rapid.IntRange(1, capNum).Draw(t, "req1Num"), rapid.IntRange(0, capSize).Draw(t, "req1Size"))
	if rapid.IntRange(0, 3).Draw(t, "laterCallerHasNearerDeadline") == 0 {
		s.W = []waiter{{Req: r0, Timeout: long}, {Req: r1, Timeout: short}}
	} else {
		s.W = []waiter{{Req: r0, Timeout: short}, {Req: r1, Timeout: long}}
	}
	return s
}

// TestC30TwoDeadlines: "a request still unsatisfied when its timeout expires returns false shortly after the
// timeout" with two callers blocked at the same time.
func TestC30TwoDeadlines(t *testing.T) {
	rapid.Check(t, func(t *rapid.T) {
		s := genTwoDeadlines(t)
		v, info, overloaded := runScenario(s)
		if !decide(t, stTwoDl, s.String(), s.String(), v, overloaded, func() (verdict, bool) {
			v2, _, ov := runScenario(s)
			return v2, ov
		}) {
			return
		}
		cl := "later_caller_has_later_deadline"
		if s.W[1].Timeout < s.W[0].Timeout {
			cl = "later_caller_has_nearer_deadline"
		}
		stTwoDl.Case(stats.Hash(s), true, "kind_"+s.Kind, cl)
		stTwoDl.Sample(func() interface{} {
			outs := []string{}
			for i, o := range info.out {
				outs = append(outs, fmt.Sprintf("waiter%d: %v after %s", i, o.res, ms(o.ret-o.start)))
			}
			return map[string]interface{}{"scenario": s.String(), "outcomes": outs}
		})
	})
}
