// C31: piecewise-linear functions interpolate within rounding.
//
// Oracle: math/big arithmetic written from the property text. Valid dot lists never panic,
// invalid ones must make NewFunc panic.
package c31

import (
	"fmt"
	"math"
	"math/big"
	"os"
	"sort"
	"testing"

	"github.com/Fantom-foundation/lachesis-base/utils/piecefunc"
	"pgregory.net/rapid"

	"verif/harness/internal/stats"
)

func TestMain(m *testing.M) {
	code := m.Run()
	stats.Flush()
	os.Exit(code)
}

const (
	unit = uint64(1000000) // 10^6, the DecimalUnit of the property text
	// supported coordinate range of utils/piecefunc (piecefunc.go: MaxUint64/DecimalUnit - 1)
	maxVal = uint64(18446744073708)
)

var bigUnit = new(big.Int).SetUint64(unit)

func bu(v uint64) *big.Int { return new(big.Int).SetUint64(v) }

// ---------------------------------------------------------------------------------------
// generators

func genCoord() *rapid.Generator[uint64] {
	return rapid.OneOf(
		rapid.Uint64Range(0, 50),
		rapid.Uint64Range(maxVal-50, maxVal),
		rapid.Uint64Range(0, maxVal),
		rapid.Uint64Range(0, 10000000),
		rapid.Custom(func(t *rapid.T) uint64 { // around powers of ten (and multiples of 10^6)
			p := rapid.IntRange(0, 13).Draw(t, "pow10")
			v := uint64(1)
			for i := 0; i < p; i++ {
				v *= 10
			}
			v = v * rapid.Uint64Range(1, 9).Draw(t, "mant")
			d := rapid.Int64Range(-3, 3).Draw(t, "delta")
			r := uint64(int64(v) + d)
			if r > maxVal {
				r = maxVal
			}
			return r
		}),
	)
}

func genTooLarge() *rapid.Generator[uint64] {
	return rapid.OneOf(
		rapid.Just(maxVal+1),
		rapid.Uint64Range(maxVal+1, maxVal+50),
		rapid.Uint64Range(maxVal+1, math.MaxUint64),
		rapid.SampledFrom([]uint64{math.MaxUint64, math.MaxUint64 - 1, math.MaxUint64 / unit, 1 << 63, 1 << 62}),
	)
}

func genValidDots(t *rapid.T) []piecefunc.Dot {
	n := rapid.IntRange(2, 6).Draw(t, "ndots")
	if rapid.IntRange(0, 5).Draw(t, "longTable") == 0 {
		// long tables (a lookup may switch to another search above some length)
		n = rapid.IntRange(7, 70).Draw(t, "ndotsLong")
	}
	var xs []uint64
	xmode := rapid.IntRange(0, 4).Draw(t, "xmode")
	if xmode == 4 {
		// neighbours exactly a power of two apart (2^0 .. 2^43)
		x := rapid.Uint64Range(0, 1000).Draw(t, "x0pow")
		for i := 0; i < n; i++ {
			xs = append(xs, x)
			k := rapid.IntRange(0, 43).Draw(t, "gapLog2")
			for x+(uint64(1)<<uint(k)) > maxVal-uint64(n) && k > 0 {
				k--
			}
			x += uint64(1) << uint(k)
		}
		if xs[n-1] > maxVal {
			xs = xs[:0]
			for i := 0; i < n; i++ {
				xs = append(xs, uint64(i)*2)
			}
		}
	} else if xmode == 0 {
		// a run of close neighbours starting at a drawn coordinate
		x := genCoord().Draw(t, "x0")
		if x > maxVal-uint64(n)*1000 {
			x = maxVal - uint64(n)*1000
		}
		for i := 0; i < n; i++ {
			xs = append(xs, x)
			x += rapid.Uint64Range(1, 1000).Draw(t, "gap")
		}
	} else {
		xs = rapid.SliceOfNDistinct(genCoord(), n, n, rapid.ID[uint64]).Draw(t, "xs")
		sort.Slice(xs, func(i, j int) bool { return xs[i] < xs[j] })
	}
	dots := make([]piecefunc.Dot, n)
	flat := rapid.IntRange(0, 7).Draw(t, "ymode")
	for i := range dots {
		dots[i].X = xs[i]
		switch {
		case flat == 0 && i > 0 && rapid.Bool().Draw(t, "sameY"):
			dots[i].Y = dots[i-1].Y
		case flat == 1 && i > 0: // neighbours whose Ys differ by a little
			d := rapid.Uint64Range(0, 5).Draw(t, "dy")
			if rapid.Bool().Draw(t, "down") && dots[i-1].Y >= d {
				dots[i].Y = dots[i-1].Y - d
			} else if dots[i-1].Y+d <= maxVal {
				dots[i].Y = dots[i-1].Y + d
			} else {
				dots[i].Y = dots[i-1].Y
			}
		default:
			dots[i].Y = genCoord().Draw(t, "y")
		}
	}
	return dots
}

// corrupt turns a valid list into an invalid one; returns the kind.
func corrupt(t *rapid.T, dots []piecefunc.Dot) ([]piecefunc.Dot, string) {
	n := len(dots)
	switch rapid.IntRange(0, 6).Draw(t, "invalidKind") {
	case 0:
		switch rapid.IntRange(0, 2).Draw(t, "few") {
		case 0:
			return nil, "invalid_no_dots"
		case 1:
			return []piecefunc.Dot{}, "invalid_no_dots"
		}
		return dots[:1], "invalid_one_dot"
	case 1: // equal X of two neighbours
		i := rapid.IntRange(1, n-1).Draw(t, "pos")
		dots[i].X = dots[i-1].X
		return dots, "invalid_equal_x"
	case 2: // decreasing X: swap two neighbours
		i := rapid.IntRange(1, n-1).Draw(t, "pos")
		dots[i].X, dots[i-1].X = dots[i-1].X, dots[i].X
		return dots, "invalid_decreasing_x"
	case 3: // X one below its predecessor
		i := rapid.IntRange(1, n-1).Draw(t, "pos")
		if dots[i-1].X == 0 {
			dots[i].X = 0
			return dots, "invalid_equal_x"
		}
		dots[i].X = dots[i-1].X - 1
		return dots, "invalid_decreasing_x"
	case 4: // X beyond the supported range (keeps X increasing when put last)
		i := n - 1
		if rapid.Bool().Draw(t, "anyPos") {
			i = rapid.IntRange(0, n-1).Draw(t, "pos")
		}
		dots[i].X = genTooLarge().Draw(t, "big")
		if i == n-1 {
			return dots, "invalid_x_too_large_last"
		}
		return dots, "invalid_x_too_large"
	default: // Y beyond the supported range
		i := rapid.IntRange(0, n-1).Draw(t, "pos")
		dots[i].Y = genTooLarge().Draw(t, "big")
		return dots, "invalid_y_too_large"
	}
}

// ---------------------------------------------------------------------------------------
// guarded calls

func tryNewFunc(dots []piecefunc.Dot) (f func(uint64) uint64, panicked interface{}) {
	defer func() {
		if r := recover(); r != nil {
			f, panicked = nil, r
		}
	}()
	var cp []piecefunc.Dot
	if dots != nil {
		cp = append([]piecefunc.Dot{}, dots...)
	}
	return piecefunc.NewFunc(cp), nil
}

// tryNewFuncShared passes the caller's slice itself (no copy).
func tryNewFuncShared(dots []piecefunc.Dot) (f func(uint64) uint64, panicked interface{}) {
	defer func() {
		if r := recover(); r != nil {
			f, panicked = nil, r
		}
	}()
	return piecefunc.NewFunc(dots), nil
}

func tryGet(f func(uint64) uint64, x uint64) (y uint64, panicked interface{}) {
	defer func() {
		if r := recover(); r != nil {
			panicked = r
		}
	}()
	return f(x), nil
}

// ---------------------------------------------------------------------------------------
// the property

var st = stats.New("piecefunc")

type xsample struct {
	x    uint64
	kind string
}

func drawXs(t *rapid.T, dots []piecefunc.Dot) []xsample {
	n := len(dots)
	first, last := dots[0].X, dots[n-1].X
	res := []xsample{{0, "x_zero"}, {math.MaxUint64, "x_max_uint64"}}
	if n > 6 {
		// long tables: every dot and a point in every piece
		for i := range dots {
			res = append(res, xsample{dots[i].X, "x_at_dot"})
			if i+1 < n {
				res = append(res, xsample{dots[i].X + (dots[i+1].X-dots[i].X)/2, "x_in_range"})
			}
		}
	}
	k := rapid.IntRange(1, 6).Draw(t, "nx")
	for j := 0; j < k; j++ {
		switch rapid.IntRange(0, 6).Draw(t, "xkind") {
		case 0: // strictly inside a drawn segment
			i := rapid.IntRange(0, n-2).Draw(t, "seg")
			if dots[i+1].X-dots[i].X >= 2 {
				res = append(res, xsample{rapid.Uint64Range(dots[i].X+1, dots[i+1].X-1).Draw(t, "x"), "x_inside_segment"})
			} else {
				res = append(res, xsample{dots[i].X, "x_at_dot"})
			}
		case 1: // next to a dot
			i := rapid.IntRange(0, n-1).Draw(t, "dot")
			d := rapid.Uint64Range(1, 3).Draw(t, "d")
			if rapid.Bool().Draw(t, "below") {
				if dots[i].X >= d {
					res = append(res, xsample{dots[i].X - d, "x_next_to_dot"})
				}
			} else {
				res = append(res, xsample{dots[i].X + d, "x_next_to_dot"})
			}
		case 2: // anywhere between first and last
			res = append(res, xsample{rapid.Uint64Range(first, last).Draw(t, "x"), "x_in_range"})
		case 3:
			if first > 0 {
				res = append(res, xsample{rapid.Uint64Range(0, first-1).Draw(t, "x"), "x_before_first"})
			}
		case 4:
			res = append(res, xsample{rapid.Uint64Range(last+1, math.MaxUint64).Draw(t, "x"), "x_after_last"})
		case 5:
			res = append(res, xsample{rapid.Uint64().Draw(t, "x"), "x_uniform"})
		default: // a point where the interpolation ratio is not a multiple of 10^-6
			i := rapid.IntRange(0, n-2).Draw(t, "seg")
			dx := dots[i+1].X - dots[i].X
			off := rapid.Uint64Range(0, dx).Draw(t, "off")
			res = append(res, xsample{dots[i].X + off, "x_in_range"})
		}
	}
	return res
}

func propC31(t *rapid.T) {
	dots := genValidDots(t)
	if rapid.IntRange(0, 4).Draw(t, "invalid") == 0 {
		bad, kind := corrupt(t, dots)
		_, p := tryNewFunc(bad)
		if p == nil {
			t.Fatalf("NewFunc accepted an invalid dot list (%s): %v", kind, bad)
		}
		st.Case(stats.Hash(kind, bad), false, "invalid", kind)
		st.Sample(func() interface{} { return map[string]interface{}{"kind": kind, "dots": fmt.Sprint(bad)} })
		return
	}
	// the caller's table is a longer array of which the dot list is a part (spare capacity behind it); a second function
	// is made from a shorter part of the same table. Neither call may change the table, or the other function.
	table := make([]piecefunc.Dot, len(dots)+2, len(dots)+4)
	copy(table, dots)
	table[len(dots)] = piecefunc.Dot{X: 1, Y: 2}
	table[len(dots)+1] = piecefunc.Dot{X: 3, Y: 4}
	tableBefore := append([]piecefunc.Dot{}, table[:cap(table)]...)
	f, p := tryNewFuncShared(table[:len(dots)])
	if p == nil && len(dots) >= 3 {
		k := rapid.IntRange(2, len(dots)-1).Draw(t, "secondFunctionDots")
		if _, p2 := tryNewFuncShared(table[:k]); p2 != nil {
			t.Fatalf("NewFunc panicked (%v) on the first %d dots of the valid list %v", p2, k, dots)
		}
	}
	for i, d := range table[:cap(table)] {
		if d != tableBefore[i] {
			t.Fatalf("NewFunc changed the caller's table: element %d is %v, was %v (dots %v)", i, d, tableBefore[i], dots)
		}
	}
	if p != nil {
		t.Fatalf("NewFunc panicked (%v) on a valid dot list: %v", p, dots)
	}
	n := len(dots)
	get := func(x uint64) uint64 {
		y, p := tryGet(f, x)
		if p != nil {
			t.Fatalf("f(%d) panicked (%v) for valid dots %v", x, p, dots)
		}
		return y
	}
	// exactness at every dot
	for i, d := range dots {
		if y := get(d.X); y != d.Y {
			t.Fatalf("f(X[%d]=%d) = %d, want Y[%d]=%d exactly; dots %v", i, d.X, y, i, d.Y, dots)
		}
	}
	xs := drawXs(t, dots)
	nontrivial := false
	classes := map[string]bool{"valid": true, fmt.Sprintf("dots_%d", n): true}
	rawXs := make([]uint64, 0, len(xs))
	for _, s := range xs {
		x := s.x
		rawXs = append(rawXs, x)
		classes[s.kind] = true
		y := get(x)
		switch {
		case x < dots[0].X:
			classes["clamp_low"] = true
			if y != dots[0].Y {
				t.Fatalf("f(%d) = %d before the first dot, want %d; dots %v", x, y, dots[0].Y, dots)
			}
			continue
		case x > dots[n-1].X:
			classes["clamp_high"] = true
			if y != dots[n-1].Y {
				t.Fatalf("f(%d) = %d after the last dot, want %d; dots %v", x, y, dots[n-1].Y, dots)
			}
			continue
		}
		// segment [X[i], X[i+1]] containing x
		i := 0
		for i < n-2 && dots[i+1].X <= x {
			i++
		}
		x0, x1, y0, y1 := dots[i].X, dots[i+1].X, dots[i].Y, dots[i+1].Y
		if x == x0 || x == x1 {
			want := y0
			if x == x1 {
				want = y1
			}
			if y != want {
				t.Fatalf("f(%d) = %d at a dot, want %d; dots %v", x, y, want, dots)
			}
			continue
		}
		lo, hi := y0, y1
		if lo > hi {
			lo, hi = hi, lo
		}
		if y > hi {
			t.Fatalf("f(%d) = %d exceeds the larger neighbouring Y %d; segment (%d,%d)-(%d,%d); dots %v", x, y, hi, x0, y0, x1, y1, dots)
		}
		if y+1 < lo {
			t.Fatalf("f(%d) = %d is below the smaller neighbouring Y %d minus one; segment (%d,%d)-(%d,%d); dots %v", x, y, lo, x0, y0, x1, y1, dots)
		}
		// |y - exact| <= |dY|/10^6 + 2 with exact = y0 + dY*(x-x0)/dX, all scaled by dX*10^6:
		//   |y*dX - (y0*dX + dY*(x-x0))| * 10^6 <= (|dY| + 2*10^6) * dX
		dX := bu(x1 - x0)
		dY := new(big.Int).Sub(bu(y1), bu(y0))
		exactNum := new(big.Int).Mul(bu(y0), dX)
		exactNum.Add(exactNum, new(big.Int).Mul(dY, bu(x-x0)))
		lhs := new(big.Int).Mul(bu(y), dX)
		lhs.Sub(lhs, exactNum).Abs(lhs).Mul(lhs, bigUnit)
		rhs := new(big.Int).Abs(dY)
		rhs.Add(rhs, new(big.Int).Mul(big.NewInt(2), bigUnit)).Mul(rhs, dX)
		if lhs.Cmp(rhs) > 0 {
			ex := new(big.Rat).SetFrac(exactNum, dX)
			t.Fatalf("f(%d) = %d is further than |dY|/10^6+2 from the exact interpolation %s; segment (%d,%d)-(%d,%d); dots %v",
				x, y, ex.FloatString(6), x0, y0, x1, y1, dots)
		}
		// non-trivial: dX does not divide 10^6*(x-x0), so the ratio is rounded
		rem := new(big.Int).Mul(bigUnit, bu(x-x0))
		rem.Mod(rem, dX)
		if rem.Sign() != 0 {
			nontrivial = true
			classes["ratio_rounded"] = true
			if y0 != y1 {
				classes["ratio_rounded_sloped"] = true
			}
		} else {
			classes["ratio_exact"] = true
		}
		if y0 > y1 {
			classes["segment_descending"] = true
		} else if y0 < y1 {
			classes["segment_ascending"] = true
		} else {
			classes["segment_flat"] = true
		}
		if y0 > maxVal/2 || y1 > maxVal/2 {
			classes["segment_large_y"] = true
		}
		if x1 > maxVal-100 {
			classes["segment_ends_at_range_top"] = true
		}
		if y0%unit != 0 && y1%unit != 0 {
			classes["ys_not_multiples_of_unit"] = true
		}
	}
	cl := make([]string, 0, len(classes))
	for k := range classes {
		cl = append(cl, k)
	}
	st.Case(stats.Hash(dots, rawXs), nontrivial, cl...)
	st.Sample(func() interface{} { return map[string]interface{}{"dots": fmt.Sprint(dots), "xs": rawXs} })
}

func TestC31(t *testing.T) { rapid.Check(t, propC31) }

// FuzzC31 drives the same property from the native fuzzer (coverage-guided byte mutation).
func FuzzC31(f *testing.F) { f.Fuzz(rapid.MakeFuzz(propC31)) }

// TestC31Constants pins the constants the oracle takes from the anchored file.
func TestC31Constants(t *testing.T) {
	if uint64(piecefunc.DecimalUnit) != unit {
		t.Fatalf("DecimalUnit = %v, the property text says 10^6", piecefunc.DecimalUnit)
	}
	if maxVal != math.MaxUint64/unit-1 {
		t.Fatalf("harness constant maxVal is wrong")
	}
	// range extremes: both coordinates at the top of the supported range
	dots := []piecefunc.Dot{{X: 0, Y: maxVal}, {X: maxVal, Y: maxVal}}
	f, p := tryNewFunc(dots)
	if p != nil {
		t.Fatalf("NewFunc panicked on %v: %v", dots, p)
	}
	for _, x := range []uint64{0, 1, maxVal / 2, maxVal - 1, maxVal, maxVal + 1, math.MaxUint64} {
		if y, p := tryGet(f, x); p != nil || y+1 < maxVal || y > maxVal {
			t.Fatalf("f(%d) = %d (panic %v) on the flat function at the range top", x, y, p)
		}
	}
}
