// C32: index encodings are invertible and order preserving.
package c32

import (
	"bytes"
	"os"
	"testing"

	"github.com/Fantom-foundation/lachesis-base/common/bigendian"
	"github.com/Fantom-foundation/lachesis-base/common/littleendian"
	"github.com/Fantom-foundation/lachesis-base/hash"
	"github.com/Fantom-foundation/lachesis-base/inter/dag"
	"github.com/Fantom-foundation/lachesis-base/inter/idx"
	"pgregory.net/rapid"

	"verif/harness/internal/stats"
	"verif/harness/internal/tier"
)

func TestMain(m *testing.M) {
	code := m.Run()
	stats.Flush()
	os.Exit(code)
}

// reference encoders written without encoding/binary
func refBE(v uint64, n int) []byte {
	b := make([]byte, n)
	for i := n - 1; i >= 0; i-- {
		b[i] = byte(v)
		v >>= 8
	}
	return b
}

func refLE(v uint64, n int) []byte {
	b := make([]byte, n)
	for i := 0; i < n; i++ {
		b[i] = byte(v)
		v >>= 8
	}
	return b
}

// scribble overwrites an encoding the caller owns and appends to it (callers build keys with
// append(x.Bytes(), ...)); a later encoding of any value must not be affected by that.
func scribble(b []byte) {
	for i := range b {
		b[i] ^= 0xa5
	}
	_ = append(b, 0xde, 0xad, 0xbe, 0xef, 0xde, 0xad, 0xbe, 0xef)
}

// TestC32Enum16 enumerates every 16-bit value: round trip, reference bytes, and strict
// byte-order increase between neighbours (which gives order preservation for all pairs).
func TestC32Enum16(t *testing.T) {
	st := stats.New("enum16")
	var prev []byte
	for x := 0; x <= 0xffff; x++ {
		v := uint16(x)
		be := bigendian.Uint16ToBytes(v)
		le := littleendian.Uint16ToBytes(v)
		if len(be) != 2 || !bytes.Equal(be, refBE(uint64(v), 2)) {
			t.Fatalf("bigendian.Uint16ToBytes(%d) = %x", v, be)
		}
		if len(le) != 2 || !bytes.Equal(le, refLE(uint64(v), 2)) {
			t.Fatalf("littleendian.Uint16ToBytes(%d) = %x", v, le)
		}
		if bigendian.BytesToUint16(be) != v || littleendian.BytesToUint16(le) != v {
			t.Fatalf("16-bit round trip of %d failed", v)
		}
		if prev != nil && bytes.Compare(prev, be) >= 0 {
			t.Fatalf("big-endian order not increasing at %d: %x !< %x", v, prev, be)
		}
		prev = append([]byte{}, be...)
		scribble(be)
		scribble(le)
		// non-trivial: neighbour pair that differs in the high byte (carry)
		st.Case(uint64(x), x&0xff == 0 && x != 0, "u16")
	}
	st.Exhaustive(true)
	st.Sample(func() interface{} { return map[string]interface{}{"width": 16, "range": "0..65535 all values"} })
}

// TestC32Enum32 enumerates 32-bit values (all of them in the thorough tier, sharded; a
// 2^24 stride-free window set in the quick tier) for the codec and every idx type.
func TestC32Enum32(t *testing.T) {
	st := stats.New("enum32")
	shard, nshards := tier.Shard()
	check := func(lo, hi uint64) {
		var prev []byte
		if lo > 0 {
			prev = bigendian.Uint32ToBytes(uint32(lo - 1))
		}
		nt := int64(0)
		for x := lo; x < hi; x++ {
			v := uint32(x)
			be := bigendian.Uint32ToBytes(v)
			if len(be) != 4 || be[0] != byte(v>>24) || be[1] != byte(v>>16) || be[2] != byte(v>>8) || be[3] != byte(v) {
				t.Fatalf("bigendian.Uint32ToBytes(%d) = %x", v, be)
			}
			if bigendian.BytesToUint32(be) != v {
				t.Fatalf("big-endian 32-bit round trip of %d failed", v)
			}
			le := littleendian.Uint32ToBytes(v)
			if len(le) != 4 || le[3] != byte(v>>24) || le[2] != byte(v>>16) || le[1] != byte(v>>8) || le[0] != byte(v) {
				t.Fatalf("littleendian.Uint32ToBytes(%d) = %x", v, le)
			}
			if littleendian.BytesToUint32(le) != v {
				t.Fatalf("little-endian 32-bit round trip of %d failed", v)
			}
			if prev != nil && bytes.Compare(prev, be) >= 0 {
				t.Fatalf("big-endian order not increasing at %d: %x !< %x", v, prev, be)
			}
			prev = append(prev[:0], be...)
			if x < 1<<16 || x&0xfff == 0 {
				// the caller owns the returned slices: overwriting / appending must not affect later encodings
				scribble(be)
				scribble(le)
				scribble(idx.Frame(v).Bytes())
				scribble(idx.ValidatorID(v).Bytes())
			}
			if x&0xff == 0 {
				nt++
				if x&0xffff == 0 {
					// idx types on a 2^16 sub-grid (plus neighbours): they all delegate to the codec
					checkIdx32(t, v)
					checkIdx32(t, v-1)
					st.Nontrivial(x)
				}
			}
		}
		st.Evals(int64(hi - lo))
		st.Class("carry_pairs", nt)
	}
	if tier.Thorough() {
		total := uint64(1) << 32
		per := total / uint64(nshards)
		lo := per * uint64(shard)
		hi := lo + per
		if shard == nshards-1 {
			hi = total
		}
		check(lo, hi)
		st.Exhaustive(true)
		st.Sample(func() interface{} {
			return map[string]interface{}{"width": 32, "shard_range": []uint64{lo, hi}}
		})
	} else {
		// quick: first 2^22, last 2^22, and windows around every power of two
		check(0, 1<<22)
		check((1<<32)-(1<<22), 1<<32)
		for p := uint(23); p < 32; p++ {
			check((1<<p)-(1<<12), (1<<p)+(1<<12))
		}
		st.Sample(func() interface{} {
			return map[string]interface{}{"width": 32, "windows": "0..2^22, 2^32-2^22..2^32, 2^p±2^12 for p=23..31"}
		})
	}
}

func checkIdx32(t *testing.T, v uint32) {
	want := refBE(uint64(v), 4)
	if b := idx.Epoch(v).Bytes(); !bytes.Equal(b, want) || idx.BytesToEpoch(b) != idx.Epoch(v) {
		t.Fatalf("idx.Epoch codec failed for %d: %x", v, b)
	}
	if b := idx.Event(v).Bytes(); !bytes.Equal(b, want) || idx.BytesToEvent(b) != idx.Event(v) {
		t.Fatalf("idx.Event codec failed for %d: %x", v, b)
	}
	if b := idx.Lamport(v).Bytes(); !bytes.Equal(b, want) || idx.BytesToLamport(b) != idx.Lamport(v) {
		t.Fatalf("idx.Lamport codec failed for %d: %x", v, b)
	}
	if b := idx.Frame(v).Bytes(); !bytes.Equal(b, want) || idx.BytesToFrame(b) != idx.Frame(v) {
		t.Fatalf("idx.Frame codec failed for %d: %x", v, b)
	}
	if b := idx.Pack(v).Bytes(); !bytes.Equal(b, want) || idx.BytesToPack(b) != idx.Pack(v) {
		t.Fatalf("idx.Pack codec failed for %d: %x", v, b)
	}
	if b := idx.ValidatorID(v).Bytes(); !bytes.Equal(b, want) || idx.BytesToValidatorID(b) != idx.ValidatorID(v) {
		t.Fatalf("idx.ValidatorID codec failed for %d: %x", v, b)
	}
}

// boundary-biased 64-bit generator
func genU64() *rapid.Generator[uint64] {
	return rapid.OneOf(
		rapid.Uint64(),
		rapid.Custom(func(t *rapid.T) uint64 {
			p := rapid.IntRange(0, 63).Draw(t, "pow")
			d := rapid.Int64Range(-3, 3).Draw(t, "delta")
			return uint64(int64(uint64(1)<<uint(p)) + d)
		}),
		rapid.Custom(func(t *rapid.T) uint64 {
			// value with a single non-zero byte
			p := rapid.IntRange(0, 7).Draw(t, "byte")
			b := rapid.Uint64Range(0, 255).Draw(t, "val")
			return b << (8 * uint(p))
		}),
		rapid.SampledFrom([]uint64{0, 1, 0xff, 0x100, 0xffff, 0x10000, 0xffffffff, 0x100000000, ^uint64(0), ^uint64(0) - 1, 1 << 63}),
	)
}

func cmpU64(a, b uint64) int {
	switch {
	case a < b:
		return -1
	case a > b:
		return 1
	}
	return 0
}

var st64 = stats.New("pairs64")

// TestC32Pairs checks pairs of values of every width and every idx type, and event IDs.
func TestC32Pairs(t *testing.T) {
	rapid.Check(t, func(t *rapid.T) {
		a := genU64().Draw(t, "a")
		b := genU64().Draw(t, "b")
		if rapid.Bool().Draw(t, "near") {
			// b differs from a in exactly one byte
			p := rapid.IntRange(0, 7).Draw(t, "diffbyte")
			x := rapid.Uint64Range(1, 255).Draw(t, "xor")
			b = a ^ (x << (8 * uint(p)))
		}
		// 64-bit
		ea, eb := bigendian.Uint64ToBytes(a), bigendian.Uint64ToBytes(b)
		if !bytes.Equal(ea, refBE(a, 8)) || bigendian.BytesToUint64(ea) != a {
			t.Fatalf("bigendian 64 codec failed for %d: %x", a, ea)
		}
		if bytes.Compare(ea, eb) != cmpU64(a, b) {
			t.Fatalf("bigendian 64 order: %d vs %d, %x vs %x", a, b, ea, eb)
		}
		la := littleendian.Uint64ToBytes(a)
		if !bytes.Equal(la, refLE(a, 8)) || littleendian.BytesToUint64(la) != a {
			t.Fatalf("littleendian 64 codec failed for %d: %x", a, la)
		}
		if bk := idx.Block(a).Bytes(); !bytes.Equal(bk, refBE(a, 8)) || idx.BytesToBlock(bk) != idx.Block(a) {
			t.Fatalf("idx.Block codec failed for %d", a)
		}
		if bytes.Compare(idx.Block(a).Bytes(), idx.Block(b).Bytes()) != cmpU64(a, b) {
			t.Fatalf("idx.Block order: %d vs %d", a, b)
		}
		// 32-bit projections (low and high halves)
		for _, pr := range [][2]uint32{{uint32(a), uint32(b)}, {uint32(a >> 32), uint32(b >> 32)}, {uint32(a >> 13), uint32(b >> 13)}} {
			x, y := pr[0], pr[1]
			checkIdx32Fatal(t, x)
			c := cmpU64(uint64(x), uint64(y))
			if bytes.Compare(bigendian.Uint32ToBytes(x), bigendian.Uint32ToBytes(y)) != c ||
				bytes.Compare(idx.Epoch(x).Bytes(), idx.Epoch(y).Bytes()) != c ||
				bytes.Compare(idx.Event(x).Bytes(), idx.Event(y).Bytes()) != c ||
				bytes.Compare(idx.Lamport(x).Bytes(), idx.Lamport(y).Bytes()) != c ||
				bytes.Compare(idx.Frame(x).Bytes(), idx.Frame(y).Bytes()) != c ||
				bytes.Compare(idx.Pack(x).Bytes(), idx.Pack(y).Bytes()) != c ||
				bytes.Compare(idx.ValidatorID(x).Bytes(), idx.ValidatorID(y).Bytes()) != c {
				t.Fatalf("32-bit order violated for %d vs %d", x, y)
			}
			if littleendian.BytesToUint32(littleendian.Uint32ToBytes(x)) != x {
				t.Fatalf("little-endian 32 round trip failed for %d", x)
			}
		}
		// decoding is a pure read: the same bytes decode to the same value again and are left as they were; a decoder
		// given more bytes than its width reads the leading ones (a composite key, an event ID)
		for _, keep := range [][]byte{refLE(a, 8), refBE(a, 8)} {
			orig := append([]byte{}, keep...)
			le1, le2 := littleendian.BytesToUint64(keep), littleendian.BytesToUint64(keep)
			be1, be2 := bigendian.BytesToUint64(keep), bigendian.BytesToUint64(keep)
			l32a, l32b := littleendian.BytesToUint32(keep[:4]), littleendian.BytesToUint32(keep[:4])
			l16a, l16b := littleendian.BytesToUint16(keep[:2]), littleendian.BytesToUint16(keep[:2])
			if le1 != le2 || be1 != be2 || l32a != l32b || l16a != l16b || !bytes.Equal(keep, orig) {
				t.Fatalf("decoding %x twice gave %d/%d (little endian), %d/%d (big endian), %d/%d, %d/%d; the bytes are now %x", orig, le1, le2, be1, be2, l32a, l32b, l16a, l16b, keep)
			}
		}
		long := append(refBE(a, 8), refBE(b, 8)...)
		if bigendian.BytesToUint64(long) != a || bigendian.BytesToUint32(long) != uint32(a>>32) || bigendian.BytesToUint16(long) != uint16(a>>48) ||
			idx.BytesToBlock(long) != idx.Block(a) || idx.BytesToEpoch(long) != idx.Epoch(a>>32) || idx.BytesToLamport(long[4:]) != idx.Lamport(uint32(a)) ||
			idx.BytesToFrame(long) != idx.Frame(a>>32) || idx.BytesToEvent(long) != idx.Event(a>>32) || idx.BytesToValidatorID(long) != idx.ValidatorID(a>>32) {
			t.Fatalf("decoders given the 16 bytes %x do not read the leading bytes", long)
		}
		x16, y16 := uint16(a>>7), uint16(b>>7)
		if bytes.Compare(bigendian.Uint16ToBytes(x16), bigendian.Uint16ToBytes(y16)) != cmpU64(uint64(x16), uint64(y16)) {
			t.Fatalf("16-bit order violated for %d vs %d", x16, y16)
		}
		diff := a ^ b
		hiOnly := diff != 0 && diff&0x00ffffffffffffff == 0
		loOnly := diff != 0 && diff&0xffffffffffffff00 == 0
		cls := "other"
		if hiOnly {
			cls = "differ_only_high_byte"
		} else if loOnly {
			cls = "differ_only_low_byte"
		}
		st64.Case(stats.Hash(a, b), hiOnly || loOnly, cls)
		st64.Sample(func() interface{} { return map[string]interface{}{"a": a, "b": b} })
	})
}

func checkIdx32Fatal(t *rapid.T, v uint32) {
	want := refBE(uint64(v), 4)
	ok := bytes.Equal(idx.Epoch(v).Bytes(), want) && idx.BytesToEpoch(want) == idx.Epoch(v) &&
		bytes.Equal(idx.Event(v).Bytes(), want) && idx.BytesToEvent(want) == idx.Event(v) &&
		bytes.Equal(idx.Lamport(v).Bytes(), want) && idx.BytesToLamport(want) == idx.Lamport(v) &&
		bytes.Equal(idx.Frame(v).Bytes(), want) && idx.BytesToFrame(want) == idx.Frame(v) &&
		bytes.Equal(idx.Pack(v).Bytes(), want) && idx.BytesToPack(want) == idx.Pack(v) &&
		bytes.Equal(idx.ValidatorID(v).Bytes(), want) && idx.BytesToValidatorID(want) == idx.ValidatorID(v) &&
		bytes.Equal(bigendian.Uint32ToBytes(v), want) && bigendian.BytesToUint32(want) == v
	if !ok {
		t.Fatalf("32-bit idx codec failed for %d", v)
	}
}

var stID = stats.New("eventids")

type idCase struct {
	Epoch, Lamport uint32
	Tail           [24]byte
}

func genU32() *rapid.Generator[uint32] {
	return rapid.OneOf(
		rapid.Uint32(),
		rapid.SampledFrom([]uint32{0, 1, 2, 0xff, 0x100, 0xffff, 0x10000, 0xffffff, 0x1000000, 0x7fffffff, 0x80000000, 0xffffffff}),
		rapid.Custom(func(t *rapid.T) uint32 {
			p := rapid.IntRange(0, 3).Draw(t, "byte")
			b := rapid.Uint32Range(0, 255).Draw(t, "val")
			return b << (8 * uint(p))
		}),
	)
}

func genID(t *rapid.T, label string) idCase {
	var c idCase
	c.Epoch = genU32().Draw(t, label+".epoch")
	c.Lamport = genU32().Draw(t, label+".lamport")
	tail := rapid.SliceOfN(rapid.Byte(), 24, 24).Draw(t, label+".tail")
	copy(c.Tail[:], tail)
	return c
}

func buildID(c idCase, viaSetID bool) hash.Event {
	var me dag.MutableBaseEvent
	me.SetEpoch(idx.Epoch(c.Epoch))
	me.SetLamport(idx.Lamport(c.Lamport))
	if viaSetID {
		me.SetID(c.Tail)
		return me.ID()
	}
	return me.Build(c.Tail).ID()
}

// rebuildID gives the event a provisional ID first (as IndexedLachesis.Build does), then changes epoch and
// Lamport time to their final values and builds the final event.
func rebuildID(prov, c idCase, finalViaSetID bool) hash.Event {
	var me dag.MutableBaseEvent
	me.SetEpoch(idx.Epoch(prov.Epoch))
	me.SetLamport(idx.Lamport(prov.Lamport))
	me.SetID(prov.Tail)
	me.SetEpoch(idx.Epoch(c.Epoch))
	me.SetLamport(idx.Lamport(c.Lamport))
	if finalViaSetID {
		me.SetID(c.Tail)
		return me.ID()
	}
	return me.Build(c.Tail).ID()
}

func cmpID(a, b idCase) int {
	if c := cmpU64(uint64(a.Epoch), uint64(b.Epoch)); c != 0 {
		return c
	}
	if c := cmpU64(uint64(a.Lamport), uint64(b.Lamport)); c != 0 {
		return c
	}
	return bytes.Compare(a.Tail[:], b.Tail[:])
}

// TestC32EventIDs: IDs carry epoch and Lamport and sort by (epoch, lamport, tail).
func TestC32EventIDs(t *testing.T) {
	rapid.Check(t, func(t *rapid.T) {
		a := genID(t, "a")
		b := genID(t, "b")
		switch rapid.IntRange(0, 3).Draw(t, "relate") {
		case 0:
			b.Epoch = a.Epoch
		case 1:
			b.Epoch, b.Lamport = a.Epoch, a.Lamport
		case 2:
			b.Lamport = a.Lamport
		}
		via := rapid.Bool().Draw(t, "viaSetID")
		ia, ib := buildID(a, via), buildID(b, !via)
		if rapid.Bool().Draw(t, "provisionalIDFirst") {
			// a got a provisional ID under b's epoch/Lamport before its final values were set
			ia = rebuildID(b, a, via)
		}
		for _, p := range []struct {
			id hash.Event
			c  idCase
		}{{ia, a}, {ib, b}} {
			if p.id.Epoch() != idx.Epoch(p.c.Epoch) || p.id.Lamport() != idx.Lamport(p.c.Lamport) {
				t.Fatalf("ID %x built with epoch=%d lamport=%d reports epoch=%d lamport=%d", p.id, p.c.Epoch, p.c.Lamport, p.id.Epoch(), p.id.Lamport())
			}
			if !bytes.Equal(p.id[8:], p.c.Tail[:]) {
				t.Fatalf("ID tail not preserved: %x vs %x", p.id[8:], p.c.Tail)
			}
			if rt := hash.BytesToEvent(p.id.Bytes()); rt != p.id {
				t.Fatalf("ID bytes round trip failed")
			}
		}
		want := cmpID(a, b)
		if got := bytes.Compare(ia.Bytes(), ib.Bytes()); got != want {
			t.Fatalf("ID order %d, want %d for %+v vs %+v", got, want, a, b)
		}
		// the repo's own sorter must agree with the byte order on epoch/lamport
		oe := hash.OrderedEvents{ia, ib}
		oe.ByEpochAndLamport()
		if want < 0 && (a.Epoch != b.Epoch || a.Lamport != b.Lamport) && oe[0] != ia {
			t.Fatalf("ByEpochAndLamport disagrees with byte order")
		}
		nt := (a.Epoch == b.Epoch && a.Lamport != b.Lamport) || (a.Epoch != b.Epoch && cmpU64(uint64(a.Lamport), uint64(b.Lamport)) == -cmpU64(uint64(a.Epoch), uint64(b.Epoch)))
		cls := "epoch_differs"
		if a.Epoch == b.Epoch {
			cls = "same_epoch"
			if a.Lamport == b.Lamport {
				cls = "same_epoch_lamport"
			}
		}
		stID.Case(stats.Hash(a, b), nt, cls)
		stID.Sample(func() interface{} { return map[string]interface{}{"a": a, "b": b} })
	})
}
