package c32

import (
	"bytes"
	"fmt"
	"sort"
	"sync"
	"testing"

	"github.com/Fantom-foundation/lachesis-base/hash"
	"github.com/Fantom-foundation/lachesis-base/inter/idx"
	"pgregory.net/rapid"

	"verif/harness/internal/stats"
)

var stSort = stats.New("id_sort")

// TestC32Sort: a slice of IDs of any length (also beyond a thousand, with every remainder modulo small powers of two)
// sorted by the repository's sorter is in byte-wise order - by epoch, then Lamport time - and is a permutation of the
// input.
func TestC32Sort(t *testing.T) {
	rapid.Check(t, func(t *rapid.T) {
		var n int
		switch rapid.IntRange(0, 5).Draw(t, "sizeClass") {
		case 0:
			n = rapid.IntRange(1000, 1100).Draw(t, "nAboutThousand")
		case 1:
			n = rapid.SampledFrom([]int{1023, 1024, 2048, 4096}).Draw(t, "nBase") + rapid.IntRange(-3, 5).Draw(t, "nOff")
		case 2:
			n = rapid.IntRange(1101, 5000).Draw(t, "nLarge")
		default:
			n = rapid.IntRange(0, 60).Draw(t, "nSmall")
		}
		epochs := rapid.IntRange(1, 4).Draw(t, "epochs")
		lamports := rapid.SampledFrom([]int{1, 3, 50, 100000}).Draw(t, "lamports")
		seed := rapid.Uint64().Draw(t, "tailSeed")
		ids := make(hash.OrderedEvents, n)
		want := make([]hash.Event, n)
		x := seed | 1
		for i := range ids {
			// xorshift: the tails only need to be varied, not unpredictable (and thousands of draws per case would
			// make shrinking slow); epoch and Lamport come from the same stream
			x ^= x << 13
			x ^= x >> 7
			x ^= x << 17
			c := idCase{Epoch: uint32(1 + x%uint64(epochs)), Lamport: uint32(1 + (x>>8)%uint64(lamports))}
			for j := range c.Tail {
				c.Tail[j] = byte(x >> (uint(j%8) * 8))
			}
			c.Tail[0] = byte(i) // distinct enough
			c.Tail[1] = byte(i >> 8)
			ids[i] = buildID(c, i%2 == 0)
			want[i] = ids[i]
		}
		sort.SliceStable(want, func(a, b int) bool { return bytes.Compare(want[a][:], want[b][:]) < 0 })
		ids.ByEpochAndLamport()
		for i := 1; i < n; i++ {
			a, b := ids[i-1], ids[i]
			if a.Epoch() > b.Epoch() || (a.Epoch() == b.Epoch() && a.Lamport() > b.Lamport()) {
				t.Fatalf("after ByEpochAndLamport of %d IDs: position %d has (epoch %d, lamport %d), position %d has (epoch %d, lamport %d)",
					n, i-1, a.Epoch(), a.Lamport(), i, b.Epoch(), b.Lamport())
			}
		}
		got := append([]hash.Event{}, ids...)
		sort.SliceStable(got, func(a, b int) bool { return bytes.Compare(got[a][:], got[b][:]) < 0 })
		for i := range got {
			if got[i] != want[i] {
				t.Fatalf("after ByEpochAndLamport of %d IDs the slice is not a permutation of the input (sorted position %d differs)", n, i)
			}
		}
		cl := "small"
		if n >= 1000 {
			cl = fmt.Sprintf("thousand_or_more_mod4_%d", n%4)
		}
		stSort.Case(stats.Hash(n, epochs, lamports, seed), n >= 2 && epochs*lamports > 1, cl)
		stSort.Sample(func() interface{} { return map[string]interface{}{"ids": n, "epochs": epochs, "lamports": lamports} })
	})
}

var stConc = stats.New("concurrent_encoding")

// TestC32Concurrent: the encoders are pure functions, so goroutines encoding index values at the same time (as
// concurrently built events do) each get the encoding of their own value, and it stays that.
func TestC32Concurrent(t *testing.T) {
	rapid.Check(t, func(t *rapid.T) {
		workers := rapid.IntRange(2, 8).Draw(t, "goroutines")
		per := rapid.IntRange(200, 2000).Draw(t, "valuesPerGoroutine")
		seeds := make([]uint64, workers)
		for i := range seeds {
			seeds[i] = rapid.Uint64().Draw(t, "seed") | 1
		}
		errs := make(chan string, workers)
		var wg sync.WaitGroup
		for w := 0; w < workers; w++ {
			wg.Add(1)
			go func(x uint64) {
				defer wg.Done()
				type kept struct {
					v uint64
					b []byte
					k int
				}
				var held []kept
				for i := 0; i < per; i++ {
					x ^= x << 13
					x ^= x >> 7
					x ^= x << 17
					var b []byte
					k := i % 6
					switch k {
					case 0:
						b = idx.Block(x).Bytes()
					case 1:
						b = idx.Epoch(uint32(x)).Bytes()
					case 2:
						b = idx.Lamport(uint32(x)).Bytes()
					case 3:
						b = idx.Frame(uint32(x)).Bytes()
					case 4:
						b = idx.Event(uint32(x)).Bytes()
					default:
						b = idx.ValidatorID(uint32(x)).Bytes()
					}
					held = append(held, kept{x, b, k})
				}
				for _, h := range held {
					var back uint64
					switch h.k {
					case 0:
						back = uint64(idx.BytesToBlock(h.b))
					case 1:
						back = uint64(idx.BytesToEpoch(h.b))
						h.v = uint64(uint32(h.v))
					case 2:
						back = uint64(idx.BytesToLamport(h.b))
						h.v = uint64(uint32(h.v))
					case 3:
						back = uint64(idx.BytesToFrame(h.b))
						h.v = uint64(uint32(h.v))
					case 4:
						back = uint64(idx.BytesToEvent(h.b))
						h.v = uint64(uint32(h.v))
					default:
						back = uint64(idx.BytesToValidatorID(h.b))
						h.v = uint64(uint32(h.v))
					}
					if back != h.v {
						errs <- fmt.Sprintf("value %#x (index type #%d) encoded while %d goroutines were encoding decodes to %#x", h.v, h.k, workers, back)
						return
					}
				}
			}(seeds[w])
		}
		wg.Wait()
		select {
		case e := <-errs:
			t.Fatalf("%s", e)
		default:
		}
		stConc.Case(stats.Hash(seeds, per), true, fmt.Sprintf("goroutines_%d", workers))
		stConc.Class("values", int64(workers*per))
		stConc.Sample(func() interface{} { return map[string]interface{}{"goroutines": workers, "values_each": per} })
	})
}
