// C33: root registry returns exactly the registered roots.
package c33

import (
	"fmt"
	"os"
	"sort"
	"testing"

	"github.com/Fantom-foundation/lachesis-base/abft"
	"github.com/Fantom-foundation/lachesis-base/abft/election"
	"github.com/Fantom-foundation/lachesis-base/hash"
	"github.com/Fantom-foundation/lachesis-base/inter/dag"
	"github.com/Fantom-foundation/lachesis-base/inter/idx"
	"github.com/Fantom-foundation/lachesis-base/inter/pos"
	"github.com/Fantom-foundation/lachesis-base/kvdb"
	"github.com/Fantom-foundation/lachesis-base/kvdb/memorydb"
	"pgregory.net/rapid"

	"verif/harness/internal/stats"
)

func TestMain(m *testing.M) {
	code := m.Run()
	stats.Flush()
	os.Exit(code)
}

var st = stats.New("roots")

type noIndex struct{}

func (noIndex) ForklessCause(a, b hash.Event) bool { return false }

type noEvents struct{}

func (noEvents) HasEvent(hash.Event) bool      { return false }
func (noEvents) GetEvent(hash.Event) dag.Event { return nil }

type rootKey struct {
	creator idx.ValidatorID
	id      hash.Event
}

func TestC33Roots(t *testing.T) {
	rapid.Check(t, func(t *rapid.T) {
		sizes := []int{0, 1, 2, 3, 50}
		numSizes := []int{0, 1, 2, 3, 50, 101, 250, 1000}
		rootsNum := numSizes[rapid.IntRange(0, len(numSizes)-1).Draw(t, "RootsNum")]
		rootsFrames := sizes[rapid.IntRange(0, len(sizes)-1).Draw(t, "RootsFrames")]
		var crits []error
		crit := func(err error) { crits = append(crits, err) }
		store := abft.NewStore(memorydb.New(), func(idx.Epoch) kvdb.Store { return memorydb.New() }, crit,
			abft.StoreConfig{Cache: abft.StoreCacheConfig{RootsNum: uint(rootsNum), RootsFrames: rootsFrames}})
		vb := pos.NewBuilder()
		ids := []idx.ValidatorID{1, 2, 3, 0xfffffffe}
		for _, id := range ids {
			vb.Set(id, 1)
		}
		vals := vb.Build()
		epoch := idx.Epoch(rapid.SampledFrom([]uint32{1, 2, 0x01000000}).Draw(t, "epoch"))
		if err := store.ApplyGenesis(&abft.Genesis{Epoch: epoch, Validators: vals}); err != nil {
			t.Fatalf("genesis: %v", err)
		}
		ord := abft.NewOrderer(store, noEvents{}, noIndex{}, crit, abft.LiteConfig())
		if err := ord.Bootstrap(abft.OrdererCallbacks{}); err != nil {
			t.Fatalf("bootstrap: %v", err)
		}
		model := map[idx.Frame]map[rootKey]bool{}
		counter := uint32(0)
		// frames queried since the last change of that frame (cache may hold them), for the non-trivial rule
		cachedThenAppended, evictedQueried, queries, adds, switches, bigFrames := 0, 0, 0, 0, 0, 0
		queriedOnce := map[idx.Frame]bool{}
		var log []string
		// Results of earlier GetFrameRoots calls the caller still holds: the returned slice itself, the frame it was asked
		// for and a private copy of what it showed when it was returned (that content was compared with the model then).
		// A returned list is the caller's: whatever the store does later (other queries, registrations, epoch switches),
		// its first len() elements must stay what they were. Only len() is looked at, never the capacity: the store may
		// return its cached slice and later append roots of the same frame behind the returned length.
		type heldResult struct {
			frame idx.Frame
			got   []election.RootAndSlot
			want  []election.RootAndSlot
			at    int // len(log) when it was returned
		}
		var recent [4]*heldResult // the last four results
		var old [4]*heldResult    // every 5th result, kept much longer
		heldChecks, heldNonEmpty := 0, 0
		verifyHeld := func(after string) {
			for _, ring := range [][4]*heldResult{recent, old} {
				for _, h := range ring {
					if h == nil {
						continue
					}
					heldChecks++
					if len(h.got) != len(h.want) {
						t.Fatalf("internal: held slice changed its length")
					}
					for i := range h.want {
						if h.got[i] != h.want[i] {
							t.Fatalf("the list returned earlier by GetFrameRoots(%d) (after history step %d, %d roots) was changed behind the caller's back %s: element %d was (frame %d, creator %d, %s), now is (frame %d, creator %d, %s)\ncache RootsNum=%d RootsFrames=%d history: %v",
								h.frame, h.at, len(h.want), after, i,
								h.want[i].Slot.Frame, h.want[i].Slot.Validator, h.want[i].ID.String(),
								h.got[i].Slot.Frame, h.got[i].Slot.Validator, h.got[i].ID.String(),
								rootsNum, rootsFrames, log)
						}
					}
				}
			}
		}
		hold := func(f idx.Frame, got []election.RootAndSlot) {
			h := &heldResult{frame: f, got: got, want: append([]election.RootAndSlot(nil), got...), at: len(log)}
			if len(got) > 0 {
				heldNonEmpty++
			}
			recent[queries%len(recent)] = h
			if queries%5 == 0 {
				old[(queries/5)%len(old)] = h
			}
		}
		check := func(f idx.Frame) {
			got := store.GetFrameRoots(f)
			queries++
			verifyHeld(fmt.Sprintf("by GetFrameRoots(%d)", f))
			want := model[f]
			seen := map[rootKey]bool{}
			for _, r := range got {
				if r.Slot.Frame != f {
					t.Fatalf("GetFrameRoots(%d) returned a root with frame %d\nhistory: %v", f, r.Slot.Frame, log)
				}
				k := rootKey{r.Slot.Validator, r.ID}
				if seen[k] {
					t.Fatalf("GetFrameRoots(%d) returned root (creator %d, %s) twice\nhistory: %v", f, k.creator, k.id.String(), log)
				}
				seen[k] = true
				if !want[k] {
					t.Fatalf("GetFrameRoots(%d) returned (creator %d, %s), which was not registered for this frame in this epoch\ncache RootsNum=%d RootsFrames=%d history: %v",
						f, k.creator, k.id.String(), rootsNum, rootsFrames, log)
				}
			}
			if len(seen) != len(want) {
				var missing []string
				for k := range want {
					if !seen[k] {
						missing = append(missing, fmt.Sprintf("(creator %d, %s)", k.creator, k.id.String()))
					}
				}
				sort.Strings(missing)
				t.Fatalf("GetFrameRoots(%d) returned %d roots, %d are registered; missing %v\ncache RootsNum=%d RootsFrames=%d history: %v",
					f, len(seen), len(want), missing, rootsNum, rootsFrames, log)
			}
			if len(crits) > 0 {
				t.Fatalf("crit: %v", crits)
			}
			hold(f, got)
		}
		t.Repeat(map[string]func(*rapid.T){
			"addRoot": func(t *rapid.T) {
				spf := idx.Frame(rapid.IntRange(0, 6).Draw(t, "selfParentFrame"))
				frame := spf + idx.Frame(rapid.IntRange(0, 4).Draw(t, "frameJump"))
				if frame == 0 {
					frame = 1
				}
				creator := ids[rapid.IntRange(0, len(ids)-1).Draw(t, "creator")]
				counter++
				me := &dag.MutableBaseEvent{}
				me.SetEpoch(store.GetEpoch())
				me.SetCreator(creator)
				me.SetFrame(frame)
				me.SetLamport(idx.Lamport(rapid.SampledFrom([]uint32{1, 2, 0x100, 0xffffff}).Draw(t, "lamport")))
				var tail [24]byte
				tail[20], tail[21], tail[22], tail[23] = byte(counter>>24), byte(counter>>16), byte(counter>>8), byte(counter)
				tail[0] = byte(rapid.SampledFrom([]int{0, 1, 0xff}).Draw(t, "idHead"))
				me.SetID(tail)
				store.AddRoot(spf, me)
				adds++
				for f := spf + 1; f <= frame; f++ {
					if model[f] == nil {
						model[f] = map[rootKey]bool{}
					}
					model[f][rootKey{creator, me.ID()}] = true
					if queriedOnce[f] {
						cachedThenAppended++
					}
				}
				log = append(log, fmt.Sprintf("AddRoot(spf=%d, frame=%d, creator=%d, id=%s)", spf, frame, creator, me.ID().String()))
				verifyHeld("by AddRoot")
			},
			"addManyRoots": func(t *rapid.T) {
				// a frame with very many roots (many validators and forks): up to 130 registrations in a row, the
				// frame possibly queried (so cached) before and in between
				f := idx.Frame(rapid.IntRange(1, 2).Draw(t, "bigFrame"))
				n := rapid.IntRange(1, 130).Draw(t, "nRoots")
				queryAt := rapid.IntRange(-1, n).Draw(t, "queryAfter")
				if rapid.Bool().Draw(t, "queryFirst") {
					check(f)
					queriedOnce[f] = true
				}
				if model[f] == nil {
					model[f] = map[rootKey]bool{}
				}
				for i := 0; i < n; i++ {
					creator := ids[(int(counter)+i)%len(ids)]
					counter++
					me := &dag.MutableBaseEvent{}
					me.SetEpoch(store.GetEpoch())
					me.SetCreator(creator)
					me.SetFrame(f)
					me.SetLamport(idx.Lamport(1 + i%3))
					var tail [24]byte
					tail[20], tail[21], tail[22], tail[23] = byte(counter>>24), byte(counter>>16), byte(counter>>8), byte(counter)
					me.SetID(tail)
					store.AddRoot(f-1, me)
					adds++
					model[f][rootKey{creator, me.ID()}] = true
					if queriedOnce[f] {
						cachedThenAppended++
					}
					verifyHeld("by AddRoot")
					if i == queryAt {
						check(f)
						queriedOnce[f] = true
					}
				}
				if len(model[f]) > 100 {
					bigFrames++
				}
				log = append(log, fmt.Sprintf("AddRoot x%d (frame=%d, query after %d), frame now has %d roots", n, f, queryAt, len(model[f])))
				check(f)
				queriedOnce[f] = true
			},
			"query": func(t *rapid.T) {
				f := idx.Frame(rapid.IntRange(0, 11).Draw(t, "frame"))
				log = append(log, fmt.Sprintf("GetFrameRoots(%d)", f))
				if queriedOnce[f] && (rootsFrames < 11 || rootsNum < 50) {
					evictedQueried++
				}
				check(f)
				queriedOnce[f] = true
			},
			"queryAll": func(t *rapid.T) {
				log = append(log, "GetFrameRoots(0..11)")
				for f := idx.Frame(0); f <= 11; f++ {
					check(f)
					queriedOnce[f] = true
				}
			},
			"switchEpoch": func(t *rapid.T) {
				// step 0 = the same epoch is started again from scratch (Reset allows any epoch number)
				next := store.GetEpoch() + idx.Epoch(rapid.IntRange(0, 3).Draw(t, "epochStep"))
				log = append(log, fmt.Sprintf("Reset(epoch=%d)", next))
				if err := ord.Reset(next, vals); err != nil {
					t.Fatalf("Reset: %v", err)
				}
				switches++
				verifyHeld("by the epoch switch")
				model = map[idx.Frame]map[rootKey]bool{}
				queriedOnce = map[idx.Frame]bool{}
				for f := idx.Frame(0); f <= 11; f++ {
					check(f) // a new epoch starts with no roots
				}
			},
			"": func(t *rapid.T) {
				if len(crits) > 0 {
					t.Fatalf("crit: %v", crits)
				}
			},
		})
		for f := idx.Frame(0); f <= 11; f++ {
			check(f)
		}
		classes := []string{fmt.Sprintf("RootsNum_%d", rootsNum), fmt.Sprintf("RootsFrames_%d", rootsFrames)}
		if switches > 0 {
			classes = append(classes, "epoch_switch")
		}
		if cachedThenAppended > 0 {
			classes = append(classes, "append_to_cached_frame")
		}
		if bigFrames > 0 {
			classes = append(classes, "frame_with_more_than_100_roots")
		}
		st.Case(stats.Hash(log, rootsNum, rootsFrames), cachedThenAppended > 0 || evictedQueried > 0, classes...)
		st.Class("queries", int64(queries))
		st.Class("adds", int64(adds))
		st.Class("held_result_rechecks", int64(heldChecks))
		st.Class("held_nonempty_results", int64(heldNonEmpty))
		st.Sample(func() interface{} {
			l := log
			if len(l) > 30 {
				l = l[:30]
			}
			return map[string]interface{}{"RootsNum": rootsNum, "RootsFrames": rootsFrames, "history_prefix": l}
		})
	})
}
