// Package canary measures scheduler/timer delay while a timing-sensitive case runs.
// A canary goroutine sleeps in short steps and records by how much it overslept; a case whose
// canary overslept more than the tolerated amount ran on an overloaded machine and its deadline
// verdicts are not trusted (the case is counted inconclusive, never reported as a violation).
package canary

import (
	"sync"
	"sync/atomic"
	"time"
)

// Step is the nominal sleep of the canary goroutine.
const Step = 2 * time.Millisecond

// Tolerance is the oversleep above which a case is inconclusive (DESIGN.md §2, timing policy).
const Tolerance = 100 * time.Millisecond

// Canary is a running measurement.
type Canary struct {
	maxOver int64 // nanoseconds
	stop    chan struct{}
	wg      sync.WaitGroup
	last    int64 // unix nanos of the last wake-up
	started time.Time
}

// Start launches the canary goroutine.
func Start() *Canary {
	c := &Canary{stop: make(chan struct{}), started: time.Now()}
	atomic.StoreInt64(&c.last, time.Now().UnixNano())
	c.wg.Add(1)
	go func() {
		defer c.wg.Done()
		for {
			select {
			case <-c.stop:
				return
			default:
			}
			t0 := time.Now()
			time.Sleep(Step)
			over := time.Since(t0) - Step
			if int64(over) > atomic.LoadInt64(&c.maxOver) {
				atomic.StoreInt64(&c.maxOver, int64(over))
			}
			atomic.StoreInt64(&c.last, time.Now().UnixNano())
		}
	}()
	return c
}

// MaxOversleep returns the largest delay seen so far, including the still running sleep.
func (c *Canary) MaxOversleep() time.Duration {
	m := time.Duration(atomic.LoadInt64(&c.maxOver))
	// a sleep that has not returned yet counts with its current lateness
	pending := time.Duration(time.Now().UnixNano()-atomic.LoadInt64(&c.last)) - Step
	if pending > m {
		m = pending
	}
	return m
}

// Overloaded reports whether the canary overslept more than Tolerance.
func (c *Canary) Overloaded() bool { return c.MaxOversleep() > Tolerance }

// Stop ends the measurement and returns the largest oversleep.
func (c *Canary) Stop() time.Duration {
	m := c.MaxOversleep()
	close(c.stop)
	c.wg.Wait()
	if m2 := time.Duration(atomic.LoadInt64(&c.maxOver)); m2 > m {
		m = m2
	}
	return m
}
