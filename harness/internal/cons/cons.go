// Package cons wraps a consensus instance (abft.IndexedLachesis over harness-owned in-memory
// databases) and logs everything observable: Process results, blocks, applied events, crit calls.
package cons

import (
	"fmt"

	"github.com/Fantom-foundation/lachesis-base/abft"
	"github.com/Fantom-foundation/lachesis-base/hash"
	"github.com/Fantom-foundation/lachesis-base/inter/dag"
	"github.com/Fantom-foundation/lachesis-base/inter/idx"
	"github.com/Fantom-foundation/lachesis-base/inter/pos"
	"github.com/Fantom-foundation/lachesis-base/kvdb"
	"github.com/Fantom-foundation/lachesis-base/kvdb/memorydb"
	"github.com/Fantom-foundation/lachesis-base/lachesis"
	"github.com/Fantom-foundation/lachesis-base/utils/adapters"
	"github.com/Fantom-foundation/lachesis-base/utils/cachescale"
	"github.com/Fantom-foundation/lachesis-base/vecfc"
)

// BlockRec is one emitted block as seen by the application callbacks.
type BlockRec struct {
	Epoch    idx.Epoch
	Frame    idx.Frame // LastDecidedFrame+1 at BeginBlock time
	Atropos  hash.Event
	Cheaters []idx.ValidatorID
	// CheatersRef is the slice exactly as delivered in the Block (not copied): an application that keeps the
	// block must still read the same list later
	CheatersRef []idx.ValidatorID
	Applied     []hash.Event
	Sealed      bool
}

func (b BlockRec) Key() string {
	return fmt.Sprintf("%d/%d/%x/%v", b.Epoch, b.Frame, b.Atropos[:], b.Cheaters)
}

// Events is the shared event source.
type Events struct{ M map[hash.Event]dag.Event }

func NewEvents() *Events { return &Events{M: map[hash.Event]dag.Event{}} }

func (s *Events) HasEvent(h hash.Event) bool { _, ok := s.M[h]; return ok }
func (s *Events) GetEvent(h hash.Event) dag.Event {
	e, ok := s.M[h]
	if !ok {
		return nil
	}
	return e
}
func (s *Events) Put(e dag.Event) { s.M[e.ID()] = e }

// Config selects cache sizes.
type Config struct {
	Index vecfc.IndexConfig
	Store abft.StoreConfig
	Name  string
}

// Configs are the drawn cache configurations: tiny caches, the lite and the default ones.
func Configs() []Config {
	return []Config{
		{Name: "tiny", Index: vecfc.IndexConfig{Caches: vecfc.IndexCacheConfig{ForklessCausePairs: 2, HighestBeforeSeqSize: 64, LowestAfterSeqSize: 64}},
			Store: abft.StoreConfig{Cache: abft.StoreCacheConfig{RootsNum: 2, RootsFrames: 1}}},
		{Name: "zero", Index: vecfc.IndexConfig{Caches: vecfc.IndexCacheConfig{ForklessCausePairs: 0, HighestBeforeSeqSize: 0, LowestAfterSeqSize: 0}},
			Store: abft.StoreConfig{Cache: abft.StoreCacheConfig{RootsNum: 0, RootsFrames: 0}}},
		{Name: "lite", Index: vecfc.LiteConfig(), Store: abft.LiteStoreConfig()},
		{Name: "default", Index: vecfc.DefaultConfig(cachescale.Identity), Store: abft.DefaultStoreConfig(cachescale.Identity)},
	}
}

// SealFn decides, at EndBlock, whether the epoch is sealed (non-nil validators).
type SealFn func(epoch idx.Epoch, frame idx.Frame) *pos.Validators

// Instance is one consensus node.
type Instance struct {
	L        *abft.IndexedLachesis
	Store    *abft.Store
	Index    *vecfc.Index
	MainDB   kvdb.Store
	EpochDBs map[idx.Epoch]kvdb.Store
	Src      *Events
	Cfg      Config
	Seal     SealFn

	Blocks []BlockRec
	Crits  []error
	// OnApply, when set, observes every ApplyEvent call.
	OnApply func(e dag.Event)
}

// CopyDB returns a deep copy of an in-memory store.
func CopyDB(src kvdb.Store) kvdb.Store {
	dst := memorydb.New()
	it := src.NewIterator(nil, nil)
	defer it.Release()
	for it.Next() {
		k := append([]byte{}, it.Key()...)
		v := append([]byte{}, it.Value()...)
		if err := dst.Put(k, v); err != nil {
			panic(err)
		}
	}
	return dst
}

// New creates an instance over fresh databases with the given genesis.
func New(src *Events, cfg Config, epoch idx.Epoch, validators *pos.Validators, seal SealFn) (*Instance, error) {
	in := &Instance{Src: src, Cfg: cfg, Seal: seal, MainDB: memorydb.New(), EpochDBs: map[idx.Epoch]kvdb.Store{}}
	in.build()
	if err := in.Store.ApplyGenesis(&abft.Genesis{Epoch: epoch, Validators: validators}); err != nil {
		return nil, err
	}
	return in, in.bootstrap()
}

// Restart creates a new instance from copies of this instance's main DB and current epoch DB, the
// way a restarted node would: fresh Store, fresh vector index, Bootstrap.
func (in *Instance) Restart(cfg Config, seal SealFn) (*Instance, error) {
	n := &Instance{Src: in.Src, Cfg: cfg, Seal: seal, MainDB: CopyDB(in.MainDB), EpochDBs: map[idx.Epoch]kvdb.Store{}}
	cur := in.Store.GetEpoch()
	if db, ok := in.EpochDBs[cur]; ok {
		n.EpochDBs[cur] = CopyDB(db)
	}
	n.build()
	return n, n.bootstrap()
}

func (in *Instance) crit(err error) { in.Crits = append(in.Crits, err) }

func (in *Instance) build() {
	getEpochDB := func(epoch idx.Epoch) kvdb.Store {
		if db, ok := in.EpochDBs[epoch]; ok {
			return db
		}
		var db kvdb.Store
		db = memorydb.NewWithDrop(func() {
			if in.EpochDBs[epoch] == db {
				delete(in.EpochDBs, epoch)
			}
		})
		in.EpochDBs[epoch] = db
		return db
	}
	in.Store = abft.NewStore(in.MainDB, getEpochDB, in.crit, in.Cfg.Store)
	in.Index = vecfc.NewIndex(in.crit, in.Cfg.Index)
	in.L = abft.NewIndexedLachesis(in.Store, in.Src, &adapters.VectorToDagIndexer{Index: in.Index}, in.crit, abft.LiteConfig())
}

func (in *Instance) bootstrap() error {
	return in.L.Bootstrap(lachesis.ConsensusCallbacks{
		BeginBlock: func(block *lachesis.Block) lachesis.BlockCallbacks {
			rec := BlockRec{
				Epoch:       in.Store.GetEpoch(),
				Frame:       in.Store.GetLastDecidedFrame() + 1,
				Atropos:     block.Atropos,
				Cheaters:    append([]idx.ValidatorID{}, block.Cheaters...),
				CheatersRef: block.Cheaters,
			}
			in.Blocks = append(in.Blocks, rec)
			bi := len(in.Blocks) - 1
			return lachesis.BlockCallbacks{
				ApplyEvent: func(e dag.Event) {
					in.Blocks[bi].Applied = append(in.Blocks[bi].Applied, e.ID())
					if in.OnApply != nil {
						in.OnApply(e)
					}
				},
				EndBlock: func() *pos.Validators {
					if in.Seal == nil {
						return nil
					}
					v := in.Seal(rec.Epoch, rec.Frame)
					if v != nil {
						in.Blocks[bi].Sealed = true
					}
					return v
				},
			}
		},
	})
}

// Process stores the event in the shared source and processes it.
func (in *Instance) Process(e dag.Event) error {
	in.Src.Put(e)
	return in.L.Process(e)
}

// StateString summarises the persisted consensus state.
func (in *Instance) StateString() string {
	es := in.Store.GetEpochState()
	return fmt.Sprintf("epoch=%d validators=%s lastDecided=%d", es.Epoch, es.Validators.String(), in.Store.GetLastDecidedFrame())
}
