// Package crashlog is a durable-operation recorder/replayer: a kvdb.IterableDBProducer whose
// stores append create/put/del/batch(ops)/drop records to ONE ordered log before they apply them
// to their in-memory contents. Log.StateAt(p) replays the first p records into fresh in-memory
// stores; that is the state a machine would find after a crash right behind record p-1.
//
// Durability model: every Put, Delete and database drop is one record, a batch Write is one
// atomic record (LevelDB/Pebble batches are atomic), the creation of a database is one record.
// A batch Write without operations has no durable effect and is not logged.
//
// The stores are written from scratch (plain map + sorted key slice per read); they do not use
// memorydb/flushable from the repository, so that the code under test is not part of its oracle.
package crashlog

import (
	"bytes"
	"errors"
	"fmt"
	"sort"
	"strings"
	"sync"

	"github.com/Fantom-foundation/lachesis-base/kvdb"
)

// Kind of a durable record.
type Kind int

const (
	Create Kind = iota
	Put
	Del
	Batch
	Drop
)

func (k Kind) String() string {
	return [...]string{"create", "put", "del", "batch", "drop"}[k]
}

// Op is one operation inside a batch record (Val == nil means delete).
type Op struct {
	Key []byte
	Val []byte
}

// Record is one durable operation.
type Record struct {
	Kind Kind
	DB   string
	Key  []byte
	Val  []byte
	Ops  []Op
}

func (r Record) String() string {
	switch r.Kind {
	case Put:
		return fmt.Sprintf("put(%s, %x=%x)", r.DB, r.Key, r.Val)
	case Del:
		return fmt.Sprintf("del(%s, %x)", r.DB, r.Key)
	case Batch:
		parts := make([]string, len(r.Ops))
		for i, o := range r.Ops {
			if o.Val == nil {
				parts[i] = fmt.Sprintf("del %x", o.Key)
			} else {
				parts[i] = fmt.Sprintf("put %x=%x", o.Key, o.Val)
			}
		}
		return fmt.Sprintf("batch(%s, [%s])", r.DB, strings.Join(parts, "; "))
	default:
		return fmt.Sprintf("%s(%s)", r.Kind, r.DB)
	}
}

// State is the raw content of all databases: name -> key -> value.
type State map[string]map[string][]byte

// Copy returns a deep copy.
func (s State) Copy() State {
	res := make(State, len(s))
	for name, kv := range s {
		c := make(map[string][]byte, len(kv))
		for k, v := range kv {
			c[k] = append([]byte{}, v...)
		}
		res[name] = c
	}
	return res
}

// Names returns the database names in ascending order.
func (s State) Names() []string {
	res := make([]string, 0, len(s))
	for name := range s {
		res = append(res, name)
	}
	sort.Strings(res)
	return res
}

// EqualDB compares the contents of two databases.
func EqualDB(a, b map[string][]byte) bool {
	if len(a) != len(b) {
		return false
	}
	for k, v := range a {
		w, ok := b[k]
		if !ok || !bytes.Equal(v, w) {
			return false
		}
	}
	return true
}

// FormatDB renders the content of one database with sorted keys.
func FormatDB(kv map[string][]byte) string {
	keys := make([]string, 0, len(kv))
	for k := range kv {
		keys = append(keys, k)
	}
	sort.Strings(keys)
	parts := make([]string, len(keys))
	for i, k := range keys {
		parts[i] = fmt.Sprintf("%x=%x", k, kv[k])
	}
	return "{" + strings.Join(parts, " ") + "}"
}

// String renders the state with sorted names and keys.
func (s State) String() string {
	parts := []string{}
	for _, name := range s.Names() {
		parts = append(parts, name+":"+FormatDB(s[name]))
	}
	return "[" + strings.Join(parts, " ") + "]"
}

// apply executes one record on the state.
func (s State) apply(r Record) {
	switch r.Kind {
	case Create:
		if _, ok := s[r.DB]; !ok {
			s[r.DB] = map[string][]byte{}
		}
	case Drop:
		delete(s, r.DB)
	case Put:
		s[r.DB][string(r.Key)] = append([]byte{}, r.Val...)
	case Del:
		delete(s[r.DB], string(r.Key))
	case Batch:
		for _, o := range r.Ops {
			if o.Val == nil {
				delete(s[r.DB], string(o.Key))
			} else {
				s[r.DB][string(o.Key)] = append([]byte{}, o.Val...)
			}
		}
	}
}

// Log is the single ordered log of durable operations of all stores of one producer.
type Log struct {
	mu      sync.Mutex
	records []Record
}

// NewLog returns an empty log.
func NewLog() *Log { return &Log{} }

// Len is the number of records written so far.
func (l *Log) Len() int {
	l.mu.Lock()
	defer l.mu.Unlock()
	return len(l.records)
}

// Records returns a copy of the record list.
func (l *Log) Records() []Record {
	l.mu.Lock()
	defer l.mu.Unlock()
	return append([]Record{}, l.records...)
}

func (l *Log) append(r Record) {
	l.mu.Lock()
	l.records = append(l.records, r)
	l.mu.Unlock()
}

// StateAt replays the first p records into fresh in-memory stores.
func (l *Log) StateAt(p int) State {
	l.mu.Lock()
	defer l.mu.Unlock()
	if p < 0 || p > len(l.records) {
		panic(fmt.Sprintf("crashlog: StateAt(%d) outside 0..%d", p, len(l.records)))
	}
	s := State{}
	for _, r := range l.records[:p] {
		s.apply(r)
	}
	return s
}

// Producer hands out logging stores. The data of a database lives in the producer ("on disk");
// store handles can be closed and re-opened without losing it.
type Producer struct {
	mu    sync.Mutex
	log   *Log
	state State
}

var _ kvdb.IterableDBProducer = (*Producer)(nil)

// NewProducer returns a producer without databases that records into log (nil: a private log).
func NewProducer(log *Log) *Producer {
	return NewProducerOver(State{}, log)
}

// NewProducerOver returns a producer over the given databases (the state is copied); operations
// are recorded into log (nil: a private log).
func NewProducerOver(initial State, log *Log) *Producer {
	if log == nil {
		log = NewLog()
	}
	return &Producer{log: log, state: initial.Copy()}
}

// Log returns the log this producer records into.
func (p *Producer) Log() *Log { return p.log }

// State returns a deep copy of the raw contents of all databases.
func (p *Producer) State() State {
	p.mu.Lock()
	defer p.mu.Unlock()
	return p.state.Copy()
}

// Names of existing databases (ascending).
func (p *Producer) Names() []string {
	p.mu.Lock()
	defer p.mu.Unlock()
	return p.state.Names()
}

// OpenDB opens the database, creating it (one create record) when it does not exist.
func (p *Producer) OpenDB(name string) (kvdb.Store, error) {
	p.mu.Lock()
	defer p.mu.Unlock()
	if _, ok := p.state[name]; !ok {
		r := Record{Kind: Create, DB: name}
		p.log.append(r)
		p.state.apply(r)
	}
	return &store{p: p, name: name}, nil
}

var (
	errClosed  = errors.New("crashlog: store handle is closed")
	errDropped = errors.New("crashlog: database was dropped")
)

// store is one handle of a database.
type store struct {
	p      *Producer
	name   string
	closed bool
}

// data returns the live map; the producer lock must be held.
func (s *store) data() (map[string][]byte, error) {
	if s.closed {
		return nil, errClosed
	}
	kv, ok := s.p.state[s.name]
	if !ok {
		return nil, errDropped
	}
	return kv, nil
}

func (s *store) write(r Record) error {
	s.p.mu.Lock()
	defer s.p.mu.Unlock()
	if _, err := s.data(); err != nil {
		return err
	}
	s.p.log.append(r)
	s.p.state.apply(r)
	return nil
}

func cp(b []byte) []byte { return append([]byte{}, b...) }

func (s *store) Put(key, value []byte) error {
	return s.write(Record{Kind: Put, DB: s.name, Key: cp(key), Val: cp(value)})
}

func (s *store) Delete(key []byte) error {
	return s.write(Record{Kind: Del, DB: s.name, Key: cp(key)})
}

func (s *store) Has(key []byte) (bool, error) {
	s.p.mu.Lock()
	defer s.p.mu.Unlock()
	kv, err := s.data()
	if err != nil {
		return false, err
	}
	_, ok := kv[string(key)]
	return ok, nil
}

func (s *store) Get(key []byte) ([]byte, error) {
	s.p.mu.Lock()
	defer s.p.mu.Unlock()
	kv, err := s.data()
	if err != nil {
		return nil, err
	}
	v, ok := kv[string(key)]
	if !ok {
		return nil, nil
	}
	return cp(v), nil
}

func (s *store) Stat(string) (string, error) { return "", nil }

func (s *store) Compact([]byte, []byte) error { return nil }

// Close closes this handle only; the data stays with the producer.
func (s *store) Close() error {
	s.p.mu.Lock()
	defer s.p.mu.Unlock()
	if s.closed {
		return errClosed
	}
	s.closed = true
	return nil
}

// Drop deletes the database (one drop record). Dropping an absent database is a no-op.
func (s *store) Drop() {
	s.p.mu.Lock()
	defer s.p.mu.Unlock()
	if _, ok := s.p.state[s.name]; !ok {
		return
	}
	r := Record{Kind: Drop, DB: s.name}
	s.p.log.append(r)
	s.p.state.apply(r)
}

type pair struct{ k, v []byte }

func sortedPairs(kv map[string][]byte, prefix, start []byte) []pair {
	from := append(cp(prefix), start...)
	res := []pair{}
	for k, v := range kv {
		if bytes.HasPrefix([]byte(k), prefix) && bytes.Compare([]byte(k), from) >= 0 {
			res = append(res, pair{[]byte(k), cp(v)})
		}
	}
	sort.Slice(res, func(i, j int) bool { return bytes.Compare(res[i].k, res[j].k) < 0 })
	return res
}

type iterator struct {
	pairs []pair
	pos   int
	err   error
}

func (it *iterator) Next() bool {
	if it.pos+1 >= len(it.pairs) {
		it.pos = len(it.pairs)
		return false
	}
	it.pos++
	return true
}
func (it *iterator) Error() error { return it.err }
func (it *iterator) Key() []byte {
	if it.pos < 0 || it.pos >= len(it.pairs) {
		return nil
	}
	return it.pairs[it.pos].k
}
func (it *iterator) Value() []byte {
	if it.pos < 0 || it.pos >= len(it.pairs) {
		return nil
	}
	return it.pairs[it.pos].v
}
func (it *iterator) Release() { it.pairs, it.pos = nil, 0 }

// NewIterator iterates over a copy of the matching pairs taken now.
func (s *store) NewIterator(prefix, start []byte) kvdb.Iterator {
	s.p.mu.Lock()
	defer s.p.mu.Unlock()
	kv, err := s.data()
	if err != nil {
		return &iterator{pos: -1, err: err}
	}
	return &iterator{pairs: sortedPairs(kv, prefix, start), pos: -1}
}

type snapshot struct {
	kv map[string][]byte
}

func (s *snapshot) Has(key []byte) (bool, error) {
	_, ok := s.kv[string(key)]
	return ok, nil
}
func (s *snapshot) Get(key []byte) ([]byte, error) {
	v, ok := s.kv[string(key)]
	if !ok {
		return nil, nil
	}
	return cp(v), nil
}
func (s *snapshot) NewIterator(prefix, start []byte) kvdb.Iterator {
	return &iterator{pairs: sortedPairs(s.kv, prefix, start), pos: -1}
}
func (s *snapshot) Release() {}

func (s *store) GetSnapshot() (kvdb.Snapshot, error) {
	s.p.mu.Lock()
	defer s.p.mu.Unlock()
	kv, err := s.data()
	if err != nil {
		return nil, err
	}
	c := make(map[string][]byte, len(kv))
	for k, v := range kv {
		c[k] = cp(v)
	}
	return &snapshot{kv: c}, nil
}

type batch struct {
	s    *store
	ops  []Op
	size int
}

func (s *store) NewBatch() kvdb.Batch { return &batch{s: s} }

func (b *batch) Put(key, value []byte) error {
	b.ops = append(b.ops, Op{Key: cp(key), Val: cp(value)})
	b.size += len(key) + len(value)
	return nil
}
func (b *batch) Delete(key []byte) error {
	b.ops = append(b.ops, Op{Key: cp(key)})
	b.size += len(key)
	return nil
}
func (b *batch) ValueSize() int { return b.size }
func (b *batch) Reset()         { b.ops, b.size = nil, 0 }

// Write appends the whole batch as ONE record (atomic) and applies it.
func (b *batch) Write() error {
	if len(b.ops) == 0 {
		// nothing durable happens; still fails on a closed/dropped store like a real DB
		b.s.p.mu.Lock()
		defer b.s.p.mu.Unlock()
		_, err := b.s.data()
		return err
	}
	ops := make([]Op, len(b.ops))
	copy(ops, b.ops)
	return b.s.write(Record{Kind: Batch, DB: b.s.name, Ops: ops})
}

func (b *batch) Replay(w kvdb.Writer) error {
	for _, o := range b.ops {
		var err error
		if o.Val == nil {
			err = w.Delete(o.Key)
		} else {
			err = w.Put(o.Key, o.Val)
		}
		if err != nil {
			return err
		}
	}
	return nil
}
