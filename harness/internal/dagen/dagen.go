// Package dagen draws validator sets, DAGs (with lagging/partitioned validators and forks),
// parents-first delivery orders and multi-epoch scenarios with rapid. Frames are assigned by the
// graph reference, so that acceptance by the implementation is itself a differential check.
package dagen

import (
	"fmt"
	"os"

	"github.com/Fantom-foundation/lachesis-base/inter/idx"
	"github.com/Fantom-foundation/lachesis-base/inter/pos"
	"pgregory.net/rapid"

	"verif/harness/internal/graphref"
)

// ForkMode selects which validators may fork.
type ForkMode int

const (
	NoForks      ForkMode = iota
	MinorityFork          // forkers hold strictly less than 1/3 of the weight
	AnyFork               // any subset may fork
)

// Params bounds a generated DAG.
type Params struct {
	MinEvents, MaxEvents int
	Forks                ForkMode
	NonMaxFrames         bool // allow a low rate of accepted but non-maximal claimed frames
	// Shape forces one of the large shapes (see GenDAG): "many_validators" (the caller passes 65-70 validators,
	// see GenValidatorsMany; forkers come from the tail of the weight order), "late_quorum" (less than a quorum is
	// online for so long that one block confirms several hundred events, and one of the early validators leaves
	// half-way), "mass_fork" (one minority validator signs 66-70 events with one sequence number and the others
	// build only on the last of them).
	Shape      string
	LongEpochs bool // with a single validator, sometimes generate epochs of ~300 events (> 256 decided frames)
}

// Info describes what the generator produced (for class counters).
type Info struct {
	WeightClass       string
	Forkers           []int
	ForkPairs         int // number of events that repeat a (creator, seq) pair
	Partitions        int // number of periods with a partition
	Lagged            int // parents that were not the latest tip
	NonMax            int // events with a non-maximal claimed frame
	Offline           int // validator-periods spent silent
	Density           string
	MaxParents        int
	Rotating          bool
	Shape             string // "", "many_validators", "late_quorum", "mass_fork", "long_silence"
	Layered           bool   // synchronous rounds
	Marginal          bool   // parents chosen so that their creators weigh about the quorum
	ConfidantSilences int    // times the confidant saw two branches of a forker directly and fell silent
	HiddenForks       int    // siblings signed right after each other (the older one is rarely built upon)
}

// DrawShape draws one of the large shapes (the preferred one in half of the cases). VERIF_SHAPE (development aid, never set by the registered commands)
// pins it.
func DrawShape(t *rapid.T, prefer string) string {
	if s := os.Getenv("VERIF_SHAPE"); s != "" {
		return s
	}
	return rapid.SampledFrom([]string{"many_validators", "late_quorum", "mass_fork", "long_silence", prefer, prefer}).Draw(t, "shape")
}

// GenValidatorsMany draws 65-70 validators (more than one machine word of per-validator flags) with small weights.
func GenValidatorsMany(t *rapid.T) ([]idx.ValidatorID, []pos.Weight, string) {
	{
		n := rapid.IntRange(65, 70).Draw(t, "nManyValidators")
		ids := make([]idx.ValidatorID, n)
		ws := make([]pos.Weight, n)
		base := idx.ValidatorID(rapid.Uint32Range(1, 1000).Draw(t, "idBase"))
		for i := range ids {
			ids[i] = base + idx.ValidatorID(i)*idx.ValidatorID(rapid.SampledFrom([]uint32{1, 3}).Draw(t, "idStride"))
			if i > 0 && ids[i] <= ids[i-1] {
				ids[i] = ids[i-1] + 1
			}
			ws[i] = pos.Weight(rapid.Uint32Range(1, 3).Draw(t, "w"))
		}
		return ids, ws, "many_validators"
	}
}

// GenValidators draws 1..8 validators with one of the weight classes.
func GenValidators(t *rapid.T) ([]idx.ValidatorID, []pos.Weight, string) {
	n := rapid.SampledFrom([]int{1, 2, 3, 3, 4, 4, 4, 4, 5, 5, 5, 6, 6, 7, 8}).Draw(t, "nValidators")
	return GenValidatorsN(t, n)
}

// GenValidatorsN draws n validators.
func GenValidatorsN(t *rapid.T, n int) ([]idx.ValidatorID, []pos.Weight, string) {
	ids := make([]idx.ValidatorID, 0, n)
	used := map[idx.ValidatorID]bool{}
	for len(ids) < n {
		var id idx.ValidatorID
		if rapid.IntRange(0, 9).Draw(t, "idKind") == 0 {
			id = idx.ValidatorID(rapid.Uint32Range(1000, 0xffffffff).Draw(t, "bigID"))
		} else {
			id = idx.ValidatorID(rapid.Uint32Range(1, 40).Draw(t, "id"))
		}
		if used[id] {
			// deterministic probing keeps the generator constructive (no rejection)
			for used[id] {
				id++
			}
		}
		used[id] = true
		ids = append(ids, id)
	}
	class := rapid.SampledFrom([]string{"equal", "equal", "small", "small", "small", "skewed", "huge", "mixed"}).Draw(t, "weightClass")
	ws := make([]pos.Weight, n)
	switch class {
	case "equal":
		w := pos.Weight(rapid.SampledFrom([]uint32{1, 1, 1, 2, 7}).Draw(t, "w"))
		for i := range ws {
			ws[i] = w
		}
	case "small":
		for i := range ws {
			ws[i] = pos.Weight(rapid.Uint32Range(1, 5).Draw(t, "w"))
		}
	case "mixed":
		for i := range ws {
			ws[i] = pos.Weight(rapid.SampledFrom([]uint32{1, 2, 3, 10, 33, 34, 66, 67, 100, 1000}).Draw(t, "w"))
		}
	case "skewed":
		// others small; validator 0 holds about 2/3, validator 1 (if any) just below 1/3
		var rest uint64
		for i := 2; i < n; i++ {
			ws[i] = pos.Weight(rapid.Uint32Range(1, 3).Draw(t, "w"))
			rest += uint64(ws[i])
		}
		base := rest + uint64(rapid.Uint32Range(1, 20).Draw(t, "base"))
		if n >= 2 {
			ws[1] = pos.Weight(base)
			delta := int64(rapid.IntRange(-2, 2).Draw(t, "delta"))
			w0 := int64(2*(base+rest)) + delta
			if w0 < 1 {
				w0 = 1
			}
			ws[0] = pos.Weight(w0)
		} else {
			ws[0] = pos.Weight(base)
		}
	case "huge":
		// total close to the 2^31-1 limit
		total := uint64(1<<31 - 1 - rapid.Uint32Range(0, 5).Draw(t, "slack"))
		left := total
		for i := 0; i < n-1; i++ {
			maxW := left - uint64(n-1-i)
			share := maxW / uint64(n-i)
			w := share/2 + uint64(rapid.Uint64Range(0, share).Draw(t, "w"))
			if w < 1 {
				w = 1
			}
			if w > maxW {
				w = maxW
			}
			ws[i] = pos.Weight(w)
			left -= w
		}
		ws[n-1] = pos.Weight(left)
	}
	return ids, ws, class
}

// GenDAG draws one epoch's DAG.
func GenDAG(t *rapid.T, epoch uint32, ids []idx.ValidatorID, weights []pos.Weight, p Params) (*graphref.Ref, Info) {
	n := len(ids)
	nEvents := rapid.IntRange(p.MinEvents, p.MaxEvents).Draw(t, "nEvents")
	if nEvents < 6*n && 6*n <= p.MaxEvents {
		nEvents = 6 * n // enough events for a few frames
	}
	if p.LongEpochs && n == 1 && rapid.Bool().Draw(t, "longEpoch") {
		nEvents = rapid.IntRange(270, 330).Draw(t, "longEpochEvents")
	}
	var info Info
	info.Shape = p.Shape
	// rank of every validator in the (weight desc, id asc) order used by pos.Validators
	rank := make([]int, n)
	for v := range rank {
		for u := range rank {
			if weights[u] > weights[v] || (weights[u] == weights[v] && ids[u] < ids[v]) {
				rank[v]++
			}
		}
	}
	var total uint64
	for _, w := range weights {
		total += uint64(w)
	}
	inLate := make([]bool, n) // late_quorum: the validators online during the first phase (less than a quorum)
	lateRounds, lateLeaver, lateLeaveAt := 0, -1, 0
	massForker, massAt, massCount := -1, 0, 0
	silent, silentFrom, silentRounds := -1, 0, 0 // long_silence: one validator is cut off for more than 100 frames
	switch p.Shape {
	case "many_validators":
		nEvents = n * rapid.IntRange(6, 9).Draw(t, "manyValidatorsRounds")
	case "late_quorum":
		var lw uint64
		nLate := 0
		for _, v := range rapid.Permutation(seq(n)).Draw(t, "lateSetOrder") {
			if 3*(lw+uint64(weights[v])) <= 2*total { // stays below the quorum of 2/3*total+1
				inLate[v] = true
				lw += uint64(weights[v])
				nLate++
				if lateLeaver < 0 || rapid.Bool().Draw(t, "lateLeaverPick") {
					lateLeaver = v
				}
			}
		}
		if nLate < 3 {
			info.Shape = "" // one validator holds too much weight for a long quorum-less phase of several validators
			break
		}
		lateLeaveAt = rapid.IntRange(5, 40).Draw(t, "lateLeaveAt")
		lateRounds = lateLeaveAt + 700/(nLate-1) + rapid.IntRange(1, 60).Draw(t, "lateRounds")
		nEvents = lateLeaveAt*nLate + (lateRounds-lateLeaveAt)*(nLate-1) + n*rapid.IntRange(10, 16).Draw(t, "afterRounds")
	case "long_silence":
		cands := []int{}
		for v := 0; v < n; v++ {
			if 3*uint64(weights[v]) < total {
				cands = append(cands, v)
			}
		}
		if len(cands) == 0 || n < 3 {
			info.Shape = ""
			break
		}
		silent = rapid.SampledFrom(cands).Draw(t, "silentValidator")
		silentFrom = rapid.IntRange(1, 3).Draw(t, "silentFromRound")
		silentRounds = rapid.IntRange(215, 260).Draw(t, "silentRounds")
		nEvents = (n-1)*silentRounds + n*rapid.IntRange(8, 14).Draw(t, "afterRounds")
	case "mass_fork":
		cands := []int{}
		for v := 0; v < n; v++ {
			if 3*uint64(weights[v]) < total {
				cands = append(cands, v)
			}
		}
		if len(cands) == 0 || p.Forks == NoForks {
			info.Shape = ""
			break
		}
		massForker = rapid.SampledFrom(cands).Draw(t, "massForker")
		massAt = rapid.IntRange(1, 4).Draw(t, "massForkAtRound")
		massCount = rapid.IntRange(66, 70).Draw(t, "massForkSiblings")
		if nEvents < 10*n {
			nEvents = 10 * n
		}
		nEvents += massCount
	}
	ref := graphref.New(epoch, ids, weights, nEvents+80)

	// forkers
	isForker := make([]bool, n)
	forkRate := make([]int, n)
	if info.Shape == "long_silence" {
		// the others must keep deciding frames for a long time: no forkers, maximal frames, nobody skips rounds
		p.Forks, p.NonMaxFrames = NoForks, false
	}
	if p.Forks != NoForks && (info.Shape == "many_validators" || rapid.IntRange(0, 3).Draw(t, "forksOn") != 0) {
		forkerPct := rapid.SampledFrom([]int{15, 30, 30, 50}).Draw(t, "forkerPct")
		var fw uint64
		minority := p.Forks == MinorityFork || rapid.IntRange(0, 2).Draw(t, "keepMinority") != 0
		if massForker >= 0 {
			fw = ref.Weights[massForker]
		}
		for v := 0; v < n; v++ {
			if v == massForker {
				continue
			}
			if info.Shape == "many_validators" {
				// forkers come from the end of the validators order (sorted index >= 64: beyond one machine word
				// of per-validator flags)
				if rank[v] < 64 || rapid.IntRange(0, 2).Draw(t, "tailForker") == 0 {
					continue
				}
			} else if rapid.IntRange(0, 99).Draw(t, "forker") >= forkerPct {
				continue
			}
			if minority && 3*(fw+ref.Weights[v]) >= ref.Total {
				continue
			}
			isForker[v] = true
			forkRate[v] = rapid.SampledFrom([]int{2, 4, 8, 12}).Draw(t, "forkRate")
			if info.Shape == "late_quorum" && forkRate[v] > 2 {
				forkRate[v] = 2 // hundreds of events per validator: keep the number of branches moderate
			}
			if info.Shape == "many_validators" {
				// the forker rarely returns to an abandoned branch (which would show the fork to everybody who
				// builds on it next): its forks are mostly siblings nobody builds upon
				forkRate[v] = rapid.SampledFrom([]int{1, 1, 2}).Draw(t, "forkRateMany")
			}
			fw += ref.Weights[v]
			info.Forkers = append(info.Forkers, v)
		}
		if info.Shape == "many_validators" && len(info.Forkers) == 0 {
			// at least one forker beyond sorted index 63
			v := 0
			want := rapid.IntRange(64, n-1).Draw(t, "tailForkerRank")
			for u := range rank {
				if rank[u] == want {
					v = u
				}
			}
			isForker[v] = true
			forkRate[v] = 1
			info.Forkers = append(info.Forkers, v)
		}
	}

	if massForker >= 0 {
		isForker[massForker] = true
		forkRate[massForker] = rapid.SampledFrom([]int{0, 2, 4}).Draw(t, "massForkerRate")
		info.Forkers = append(info.Forkers, massForker)
	}
	// fast forkers sign several events (children and siblings) in a row
	fast := make([]bool, n)
	for v := range fast {
		if isForker[v] {
			if info.Shape == "many_validators" {
				fast[v] = rapid.IntRange(0, 3).Draw(t, "fastForkerMany") != 0
			} else {
				fast[v] = rapid.IntRange(0, 5).Draw(t, "fastForker") == 0
			}
		}
	}
	refFrom := make([]int, n) // others reference only this validator's events from this index on
	// many_validators: a core set holding just about a quorum (all forkers included) does nearly all the work, so
	// that quorums of observers are marginal and a single validator's weight decides
	var core []bool
	if info.Shape == "many_validators" {
		core = make([]bool, n)
		var cw uint64
		for v := range core {
			if isForker[v] {
				core[v] = true
				cw += ref.Weights[v]
			}
		}
		extra := rapid.IntRange(1, 6).Draw(t, "coreExtra")
		for _, v := range rapid.Permutation(seq(n)).Draw(t, "coreOrder") {
			if core[v] {
				continue
			}
			if 3*cw > 2*ref.Total { // quorum reached
				if extra == 0 {
					break
				}
				extra--
			}
			core[v] = true
			cw += ref.Weights[v]
		}
	}
	density := rapid.SampledFrom([]int{100, 100, 95, 95, 90, 80, 70, 50}).Draw(t, "parentPct")
	info.Density = fmt.Sprintf("%d%%", density)
	maxParents := rapid.SampledFrom([]int{n, n, n, n, n, n, n - 1, n - 1, (n + 1) / 2, (n + 1) / 2, 2, 1}).Draw(t, "maxOtherParents")
	if info.Shape == "long_silence" {
		maxParents = n
		density = 100
	}
	if info.Shape == "late_quorum" && rapid.IntRange(0, 3).Draw(t, "lateSparse") != 0 {
		// mostly dense: many events wait on the traversal's stack when the block is finally confirmed
		maxParents = n
		if density < 95 {
			density = 95
		}
	}
	if info.Shape == "many_validators" {
		// sparse graphs of 65-70 validators make no progress within the few rounds generated
		maxParents = rapid.SampledFrom([]int{n, n, n - 1, (n + 1) / 2}).Draw(t, "maxOtherParentsMany")
		if density < 90 {
			density = 90
		}
	}
	if maxParents < 1 {
		maxParents = 1
	}
	info.MaxParents = maxParents
	// marginal quorums: see the parent selection below
	marginal := n >= 4 && rapid.IntRange(0, 9).Draw(t, "marginalParents") == 0
	if info.Shape == "many_validators" {
		marginal = rapid.IntRange(0, 3).Draw(t, "marginalParentsMany") != 0
	}
	if marginal {
		maxParents = n
	}
	info.Marginal = marginal
	// layered: synchronous rounds, every event of a round references only events of earlier rounds; with marginal
	// parents every second round, whether a whole round's roots are forkless-seen hinges on one validator
	layered := n >= 3 && rapid.IntRange(0, 9).Draw(t, "layeredRounds") == 0
	if info.Shape == "many_validators" {
		layered = rapid.Bool().Draw(t, "layeredRoundsMany")
	}
	info.Layered = layered
	// staleSkip: 0 = tips already seen by the self-parent are referenced again and again (redundant parents), 1 =
	// mostly not, 2 = never
	staleSkip := rapid.IntRange(0, 2).Draw(t, "staleTipSkip")
	if info.Shape == "late_quorum" {
		staleSkip = 2
	}
	snap := make([]int, n)
	marginalRound := false
	activity := make([]int, n)
	for v := range activity {
		activity[v] = rapid.SampledFrom([]int{4, 4, 4, 4, 3, 2, 1}).Draw(t, "activity")
	}
	group := make([]int, n)
	period := rapid.IntRange(1, 8).Draw(t, "periodRounds")
	seqSeen := make([]map[uint32]bool, n)
	for v := range seqSeen {
		seqSeen[v] = map[uint32]bool{}
	}

	seenLate := make([]int, n)  // others reference this validator's events with a delay
	learnLate := make([]int, n) // this validator references others' events with a delay
	online := make([]bool, n)
	for v := range online {
		online[v] = true
	}
	// the large shapes need progress within few rounds: no rotating quorums, rare partitions and silences
	calm := info.Shape != ""
	rotating := n >= 3 && !calm && rapid.IntRange(0, 2).Draw(t, "rotatingQuorums") == 0
	info.Rotating = rotating
	step := -1
	var queue []int // creators scheduled for the current round
	round := 0
	burstLeft, burstSP, burstDone := 0, -1, false
	// confidant mode: the first non-forking validator of the canonical order is the only one the forkers show their
	// other branches to; after such a sighting it is silent for a few rounds
	confidant, confidantSilentUntil := -1, 0
	confidantEvery := rapid.IntRange(2, 5).Draw(t, "confidantEvery")
	if len(info.Forkers) > 0 && n >= 4 && info.Shape == "" && rapid.IntRange(0, 3).Draw(t, "confidantMode") == 0 {
		for r := 0; r < n && confidant < 0; r++ {
			for v := range rank {
				if rank[v] == r && !isForker[v] {
					confidant = v
				}
			}
		}
	}
	silentCut := false
	hiddenSibling, lastSP := false, -1
	for len(ref.Evs) < nEvents {
		step++
		if len(queue) == 0 {
			if round%period == 0 && n >= 2 {
				part := n >= 3 && rapid.IntRange(0, 3).Draw(t, "partitionOn") == 0 && !(calm && rapid.IntRange(0, 3).Draw(t, "calmNoPartition") != 0)
				for v := range group {
					group[v] = 0
					if part && rapid.Bool().Draw(t, "side") {
						group[v] = 1
					}
				}
				if part {
					info.Partitions++
				}
				for v := range activity {
					activity[v] = rapid.SampledFrom([]int{4, 4, 4, 3, 2, 2, 1}).Draw(t, "activity")
					if core != nil && rapid.IntRange(0, 15).Draw(t, "coreSlow") != 0 {
						activity[v] = 4
					}
				}
				for v := range seenLate {
					seenLate[v] = rapid.SampledFrom([]int{0, 0, 0, 0, 1, 3, 6}).Draw(t, "seenLate")
					learnLate[v] = rapid.SampledFrom([]int{0, 0, 0, 0, 1, 3, 6}).Draw(t, "learnLate")
					if core != nil && rapid.IntRange(0, 15).Draw(t, "coreLate") != 0 {
						seenLate[v], learnLate[v] = 0, 0
					}
					if round < lateRounds || (silent >= 0 && round <= silentFrom+silentRounds) {
						// the quorum-less phase is a long, regular gossip: no validator lags behind
						seenLate[v], learnLate[v] = 0, 0
					}
				}
				// some validators go silent for the period (their roots arrive late or never)
				anyOn := false
				for v := range online {
					online[v] = rapid.IntRange(0, 7).Draw(t, "online") != 0
					if calm && !online[v] {
						online[v] = rapid.IntRange(0, 2).Draw(t, "calmOnline") != 0
					}
					if core != nil {
						if core[v] {
							online[v] = rapid.IntRange(0, 31).Draw(t, "coreOnline") != 0
						} else {
							online[v] = !online[v]
						}
					}
					anyOn = anyOn || online[v]
				}
				if !anyOn {
					online[rapid.IntRange(0, n-1).Draw(t, "forceOnline")] = true
				}
				for v := range online {
					if !online[v] {
						info.Offline++
					}
				}
			}
			round++
			if rotating {
				// the set of active validators changes every round: quorums keep shifting, so a validator's root is
				// often seen by only a part of the next frame's roots (split votes, late decisions)
				anyOn := false
				for v := range online {
					online[v] = rapid.IntRange(0, 2).Draw(t, "rotOnline") != 0
					anyOn = anyOn || online[v]
				}
				if !anyOn {
					online[rapid.IntRange(0, n-1).Draw(t, "rotForce")] = true
				}
			}
			if round <= lateRounds {
				// late_quorum: only the early set is online, and one of its members leaves for good half-way
				for v := range online {
					online[v] = inLate[v] && !(v == lateLeaver && round > lateLeaveAt)
					group[v] = 0
				}
			} else if lateLeaver >= 0 && round <= lateRounds+4 {
				// everybody else joins; the leaver returns only some rounds later
				if round == lateRounds+1 {
					for v := range online {
						online[v] = true
					}
				}
				online[lateLeaver] = false
			}
			if confidant >= 0 {
				// the confidant is a slow validator: it shows up every few rounds only (its events are then roots of
				// all the frames it missed), and not at all for a while after a sighting
				if round < confidantSilentUntil || round%confidantEvery != 0 {
					online[confidant] = false
				} else {
					online[confidant] = true
				}
			}
			if silent >= 0 {
				cut := round > silentFrom && round <= silentFrom+silentRounds
				for v := range online {
					group[v] = 0
					if cut || round <= silentFrom {
						online[v] = true // the others run at full speed: a frame per round or two
					}
				}
				if cut {
					online[silent] = false
				}
				silentCut = cut
			}
			if massForker >= 0 && burstLeft == 0 && !burstDone && round >= massAt && len(ref.ByCreat[massForker]) > 0 {
				own := ref.ByCreat[massForker]
				burstLeft, burstSP = massCount, own[len(own)-1]
			}
			// one round: the online validators create events in a drawn order; slow ones skip rounds
			perm := rapid.Permutation(seq(n)).Draw(t, "roundOrder")
			for _, v := range perm {
				if !online[v] {
					continue
				}
				if activity[v] < 4 && !silentCut && rapid.IntRange(0, 3).Draw(t, "skipRound") >= activity[v] {
					continue
				}
				queue = append(queue, v)
			}
			if len(queue) == 0 {
				for _, v := range perm {
					if online[v] {
						queue = append(queue, v)
						break
					}
				}
			}
			if len(queue) == 0 {
				queue = append(queue, perm[0]) // nobody is online: somebody wakes up
			}
			for v := range snap {
				snap[v] = len(ref.ByCreat[v])
			}
			marginalRound = marginal && (!layered || round%2 == 0)
		}
		if burstLeft > 0 {
			// mass_fork: one more sibling on the same self-parent; siblings differ by salt and by a parent or two
			var others []int
			for k := rapid.IntRange(0, 2).Draw(t, "burstParents"); k > 0; k-- {
				u := rapid.IntRange(0, n-1).Draw(t, "burstParentOf")
				if u != massForker && len(ref.ByCreat[u]) > 0 {
					evs := ref.ByCreat[u]
					o := evs[len(evs)-1]
					if len(others) == 0 || others[0] != o {
						others = append(others, o)
					}
				}
			}
			e := ref.Prepare(graphref.Proto{Creator: massForker, SelfParent: burstSP, Others: others, Salt: uint32(step)})
			_, hi := ref.Allowed(e)
			ref.Commit(e, hi)
			if seqSeen[massForker][e.Seq] {
				info.ForkPairs++
			}
			seqSeen[massForker][e.Seq] = true
			burstLeft--
			if burstLeft == 0 {
				burstDone = true
				// the others build only on the last two or three siblings
				refFrom[massForker] = len(ref.ByCreat[massForker]) - rapid.IntRange(2, 3).Draw(t, "burstVisibleSiblings")
			}
			continue
		}
		creator := queue[0]
		queue = queue[1:]
		own := ref.ByCreat[creator]
		sp := -1
		if hiddenSibling {
			// the forker signs a second event on the same self-parent right away: the others build on the newer
			// one, the older sibling stays known to the nodes but (mostly) unobserved
			hiddenSibling = false
			sp = lastSP
		} else if len(own) > 0 {
			sp = own[len(own)-1]
			if isForker[creator] {
				k := rapid.IntRange(0, 19).Draw(t, "forkKind")
				if k < forkRate[creator] {
					sp = own[rapid.IntRange(refFrom[creator], len(own)-1).Draw(t, "forkFrom")]
				} else if k == 19 && forkRate[creator] >= 4 && refFrom[creator] == 0 {
					sp = -1
				}
			}
		}
		var others []int
		rot := 0
		if maxParents < n-1 || marginal {
			rot = rapid.IntRange(0, n-1).Draw(t, "parentRotation")
		}
		// marginal mode: the creators of the parents (with the event's own creator) weigh the quorum give or take a
		// little, so that whether the event forkless-sees something is decided by a single validator
		var accW, targetW uint64
		if marginalRound {
			accW = ref.Weights[creator]
			targetW = uint64(int64(ref.Quorum) + int64(rapid.SampledFrom([]int{-2, -1, -1, 0, 0, 0, 1, 2}).Draw(t, "marginalDelta")))
		}
		for k := 0; k < n && len(others) < maxParents; k++ {
			u := (k + rot) % n
			evs := ref.ByCreat[u]
			if layered {
				evs = evs[:snap[u]] // synchronous rounds: only what existed when the round began
			}
			if u == creator || group[u] != group[creator] || len(evs) == 0 || len(evs) <= refFrom[u] {
				continue
			}
			if silentCut && u == silent {
				continue // nobody hears of the silent validator's events while it is cut off
			}
			// a tip the self-parent has seen already brings nothing new: emitters mostly do not reference it again
			if staleSkip > 0 && sp >= 0 && ref.Evs[sp].Anc.Has(evs[len(evs)-1]) && (staleSkip == 2 || rapid.IntRange(0, 7).Draw(t, "staleTip") != 0) {
				continue
			}
			if marginalRound {
				if accW+ref.Weights[u] > targetW {
					continue
				}
				accW += ref.Weights[u]
			} else if rapid.IntRange(0, 99).Draw(t, "take") >= density {
				continue
			}
			pi := len(evs) - 1
			maxLag := seenLate[u] + learnLate[creator]
			if confidant >= 0 && isForker[u] && creator != confidant {
				maxLag = 0 // the others always build on the forker's newest event
			}
			if maxLag > 0 {
				lag := rapid.IntRange(0, maxLag).Draw(t, "lag")
				pi -= lag
				if pi < refFrom[u] {
					pi = refFrom[u]
				}
				if pi != len(evs)-1 {
					info.Lagged++
				}
			}
			others = append(others, evs[pi])
			// two direct parents by one forking validator (events of different branches): allowed by the event
			// checks, and the only way to see a fork without a common descendant of the branches
			// (rare with 65-70 validators: one such event per round would reveal every fork to everybody at once)
			// (confidant mode: only the confidant ever gets to see two branches directly, and it falls silent right
			// afterwards - what it knows reaches the others through its last event only)
			if isForker[u] && len(evs) >= 2 && len(others) < maxParents+1 && (confidant < 0 || confidant == creator) &&
				(rapid.IntRange(0, 3).Draw(t, "secondParentOfForker") == 0 || (confidant == creator && rapid.IntRange(0, 3).Draw(t, "confidantSighting") != 0)) &&
				(core == nil || rapid.IntRange(0, 49).Draw(t, "secondParentOfForkerMany") == 0) {
				pj := rapid.IntRange(refFrom[u], len(evs)-1).Draw(t, "secondParentIdx")
				if pj != pi {
					others = append(others, evs[pj])
					if confidant == creator {
						confidantSilentUntil = round + rapid.IntRange(2, 9).Draw(t, "confidantSilence")
						info.ConfidantSilences++
					}
				}
			}
		}
		// a forker may also reference one of its own other branches as an ordinary parent
		if isForker[creator] && len(own) > 1 && rapid.IntRange(0, 9).Draw(t, "ownBranchParent") == 0 &&
			(core == nil || rapid.IntRange(0, 9).Draw(t, "ownBranchParentMany") == 0) {
			o := own[rapid.IntRange(refFrom[creator], len(own)-1).Draw(t, "ownBranch")]
			if o != sp {
				dup := false
				for _, x := range others {
					if x == o {
						dup = true
					}
				}
				if !dup {
					others = append(others, o)
				}
			}
		}
		e := ref.Prepare(graphref.Proto{Creator: creator, SelfParent: sp, Others: others, Salt: uint32(step)})
		lo, hi := ref.Allowed(e)
		frame := hi
		if p.NonMaxFrames && hi > lo && rapid.IntRange(0, 19).Draw(t, "nonMax") == 0 {
			frame = uint32(rapid.IntRange(int(lo), int(hi)).Draw(t, "claimedFrame"))
			if frame != hi {
				info.NonMax++
			}
		}
		ref.Commit(e, frame)
		if seqSeen[creator][e.Seq] {
			info.ForkPairs++
		}
		seqSeen[creator][e.Seq] = true
		if isForker[creator] && forkRate[creator] > 0 && len(ref.Evs) < nEvents {
			// extra turns of a forker: a sibling of the event just signed (same self-parent), or - fast forkers
			// only - a child of it, before anybody else acts
			pSib, pChild := forkRate[creator]/4+1, 0
			if fast[creator] {
				pSib, pChild = 7, 6
			}
			if x := rapid.IntRange(0, 19).Draw(t, "extraTurn"); x < pSib && sp >= 0 {
				hiddenSibling, lastSP = true, sp
				queue = append([]int{creator}, queue...)
				info.HiddenForks++
			} else if x >= pSib && x < pSib+pChild {
				queue = append([]int{creator}, queue...)
			}
		}
	}
	return ref, info
}

// GenOrder draws a parents-first order of the reference's events. identity=true gives creation order.
func GenOrder(t *rapid.T, ref *graphref.Ref, label string) []int {
	n := len(ref.Evs)
	prio := make([]int, n)
	switch rapid.IntRange(0, 5).Draw(t, label+".orderKind") {
	case 4, 5:
		// hold back one validator: its events arrive as late as the parents-first rule allows, so that
		// the events depending on them (and the decisions they enable) come in one burst
		held := rapid.IntRange(0, len(ref.IDs)-1).Draw(t, label+".heldBack")
		for i, e := range ref.Evs {
			prio[i] = i
			if e.Creator == held {
				prio[i] = 2*n + i
			}
		}
	case 0:
		// reverse-ish: later events first whenever possible
		for i := range prio {
			prio[i] = n - i
		}
	case 1:
		// per-creator bursts: all of one validator's events as early as possible
		perm := rapid.Permutation(seq(len(ref.IDs))).Draw(t, label+".creatorPerm")
		for i, e := range ref.Evs {
			prio[i] = perm[e.Creator]*n + i
		}
	default:
		for i := range prio {
			prio[i] = rapid.IntRange(0, 4*n).Draw(t, label+".prio")
		}
	}
	return ref.Topo(prio)
}

func seq(n int) []int {
	s := make([]int, n)
	for i := range s {
		s[i] = i
	}
	return s
}

// EpochPlan is one epoch of a scenario.
type EpochPlan struct {
	Ref      *graphref.Ref
	Info     Info
	Elect    graphref.ElectResult
	SealAt   int               // block (frame) number at which the application seals; 0 = never
	NextIDs  []idx.ValidatorID // validator set returned by the sealing EndBlock
	NextWs   []pos.Weight
	NextKind string
}

// Scenario is a multi-epoch run.
type Scenario struct {
	FirstEpoch uint32
	Epochs     []*EpochPlan
}

// GenScenario draws 1..maxEpochs epochs; every epoch but the last seals at a frame that the
// reference election decides.
func GenScenario(t *rapid.T, maxEpochs int, p Params) *Scenario {
	sc := &Scenario{FirstEpoch: uint32(rapid.SampledFrom([]uint32{1, 1, 1, 2, 7, 1000}).Draw(t, "firstEpoch"))}
	var ids []idx.ValidatorID
	var ws []pos.Weight
	var class string
	switch p.Shape {
	case "many_validators":
		ids, ws, class = GenValidatorsMany(t)
	case "late_quorum", "mass_fork":
		ids, ws, class = GenValidatorsN(t, rapid.IntRange(5, 9).Draw(t, "nValidatorsShape"))
	case "long_silence":
		ids, ws, class = GenValidatorsN(t, rapid.IntRange(4, 5).Draw(t, "nValidatorsSilence"))
	default:
		ids, ws, class = GenValidators(t)
	}
	nEpochs := rapid.IntRange(1, maxEpochs).Draw(t, "nEpochs")
	if p.Shape == "many_validators" {
		nEpochs = 1
	}
	for k := 0; k < nEpochs; k++ {
		pk := p
		if k > 0 && p.Shape != "many_validators" {
			pk.Shape = "" // the large shape is the first epoch only
		}
		if pk.Shape == "many_validators" && len(ids) < 65 {
			pk.Shape = ""
		}
		ref, info := GenDAG(t, sc.FirstEpoch+uint32(k), ids, ws, pk)
		info.WeightClass = class
		plan := &EpochPlan{Ref: ref, Info: info, Elect: ref.Elect(0)}
		sc.Epochs = append(sc.Epochs, plan)
		if k == nEpochs-1 || len(plan.Elect.Blocks) == 0 || plan.Elect.Broken != "" {
			break
		}
		plan.SealAt = rapid.IntRange(1, len(plan.Elect.Blocks)).Draw(t, "sealAt")
		plan.NextIDs, plan.NextWs, plan.NextKind = mutateValidators(t, ids, ws)
		ids, ws = plan.NextIDs, plan.NextWs
		class = "after-" + plan.NextKind
	}
	return sc
}

func mutateValidators(t *rapid.T, ids []idx.ValidatorID, ws []pos.Weight) ([]idx.ValidatorID, []pos.Weight, string) {
	kind := rapid.SampledFrom([]string{"same", "reweighted", "removed", "added", "single", "fresh"}).Draw(t, "nextSet")
	nids := append([]idx.ValidatorID{}, ids...)
	nws := append([]pos.Weight{}, ws...)
	switch kind {
	case "reweighted":
		var total uint64
		for i := range nws {
			nws[i] = pos.Weight(rapid.Uint32Range(1, 9).Draw(t, "nw"))
			total += uint64(nws[i])
		}
	case "removed":
		if len(nids) > 1 {
			k := rapid.IntRange(0, len(nids)-1).Draw(t, "removeIdx")
			nids = append(nids[:k], nids[k+1:]...)
			nws = append(nws[:k], nws[k+1:]...)
		} else {
			kind = "same"
		}
	case "added":
		if len(nids) < 8 {
			id := idx.ValidatorID(rapid.Uint32Range(41, 60).Draw(t, "addID"))
			for contains(nids, id) {
				id++
			}
			nids = append(nids, id)
			w := uint64(rapid.Uint32Range(1, 5).Draw(t, "addW"))
			var total uint64
			for _, x := range nws {
				total += uint64(x)
			}
			if total+w > 1<<31-1 {
				w = 0
			}
			if w == 0 {
				nids = nids[:len(nids)-1]
				kind = "same"
			} else {
				nws = append(nws, pos.Weight(w))
			}
		} else {
			kind = "same"
		}
	case "single":
		k := rapid.IntRange(0, len(nids)-1).Draw(t, "keepIdx")
		nids, nws = []idx.ValidatorID{nids[k]}, []pos.Weight{nws[k]}
	case "fresh":
		n := rapid.IntRange(2, 5).Draw(t, "freshN")
		var cl string
		nids, nws, cl = GenValidatorsN(t, n)
		_ = cl
	}
	return nids, nws, kind
}

func contains(ids []idx.ValidatorID, id idx.ValidatorID) bool {
	for _, x := range ids {
		if x == id {
			return true
		}
	}
	return false
}
