package dagen

import (
	"fmt"
	"os"
	"testing"

	"pgregory.net/rapid"
)

// TestExplore prints the distribution of election shapes the generator reaches (development aid;
// runs only with VERIF_EXPLORE=1).
func TestExplore(t *testing.T) {
	if os.Getenv("VERIF_EXPLORE") == "" {
		t.Skip()
	}
	cnt := map[string]int{}
	total := 0
	rapid.Check(t, func(t *rapid.T) {
		ids, ws, _ := GenValidators(t)
		ref, info := GenDAG(t, 1, ids, ws, Params{MinEvents: 30, MaxEvents: 150, Forks: MinorityFork, NonMaxFrames: true})
		res := ref.Elect(0)
		total++
		if len(res.Blocks) == 0 {
			cnt["noblock"]++
			maxf := uint32(0)
			for _, e := range ref.Evs {
				if e.Frame > maxf {
					maxf = e.Frame
				}
			}
			cnt[fmt.Sprintf("noblock_n%d", len(ids))]++
			cnt[fmt.Sprintf("noblock_maxframe%d", maxf)]++
			cnt["noblock_dens"+info.Density]++
			if len(ref.Evs) > 60 && info.Density == "100%" && len(info.Forkers) == 0 && cnt["dumped"] < 1 {
				cnt["dumped"]++
				fmt.Println("DUMP", ws, info)
				for _, e := range ref.Evs {
					fmt.Printf("  e%d v%d seq%d par%v frame%d\n", e.I, e.Creator, e.Seq, e.Parents, e.Frame)
				}
			}
			if false {
				fmt.Println(len(ids), ws, len(ref.Evs), info.Density, maxf, info.Offline, info.Partitions)
			}
		}
		if res.Broken != "" {
			cnt["broken"]++
		}
		mr, nb, ties := uint32(0), 0, 0
		for _, b := range res.Blocks {
			if b.Round > mr {
				mr = b.Round
			}
			nb += b.NoBefore
			ties += b.Ties
		}
		cnt[fmt.Sprintf("maxround_%d", mr)]++
		if mr >= 3 {
			cnt[fmt.Sprintf("late_n%d_mp%d_%s", len(ids), info.MaxParents, info.Density)]++
		}
		cnt[fmt.Sprintf("all_n%d_mp%d", len(ids), info.MaxParents)]++
		if nb > 0 {
			cnt["noBefore"]++
		}
		if ties > 0 {
			cnt["ties"]++
		}
		if info.ForkPairs > 0 {
			cnt["forks"]++
		}
		cnt["blocks"] += len(res.Blocks)
	})
	fmt.Println(total, cnt)
}
