// Package graphref is the graph-definition oracle for the consensus properties (C01-C10).
// Everything here is written from the property texts: ancestry bitsets, fork visibility,
// forkless cause, merged vector clock, the frame rule, a naive election, blocks and cheaters.
// It deliberately shares no code with /repo (only the plain index/hash types).
package graphref

import (
	"crypto/sha256"
	"encoding/binary"
	"fmt"
	"sort"

	"github.com/Fantom-foundation/lachesis-base/hash"
	"github.com/Fantom-foundation/lachesis-base/inter/dag"
	"github.com/Fantom-foundation/lachesis-base/inter/idx"
	"github.com/Fantom-foundation/lachesis-base/inter/pos"
)

// Bits is a fixed-capacity bitset over event indexes.
type Bits []uint64

func newBits(n int) Bits { return make(Bits, (n+63)/64) }

func (b Bits) Has(i int) bool { return i>>6 < len(b) && b[i>>6]&(1<<(uint(i)&63)) != 0 }
func (b Bits) Set(i int)      { b[i>>6] |= 1 << (uint(i) & 63) }
func (b Bits) Or(o Bits) {
	for i := range o {
		b[i] |= o[i]
	}
}

// Ev is one event of the reference DAG.
type Ev struct {
	I          int // index in creation order
	Creator    int // index into Ref.IDs (NOT the canonical index)
	Seq        uint32
	Lamport    uint32
	Epoch      uint32
	SelfParent int   // event index or -1
	Parents    []int // event indexes, self-parent first when present
	Frame      uint32
	ID         hash.Event
	Anc        Bits // ancestors-or-self
	Salt       uint32
	// Lo..Hi is the range of frames the frame rule allowed when the event was created
	// (filled by Allowed before Commit). Hi is what Build must assign (capped at 100 above the
	// self-parent's frame); HiProcess is the highest frame Process must accept (no cap).
	Lo, Hi     uint32
	HiProcess  uint32
	allowedSet bool
}

// SPF is the self-parent's frame (0 without self-parent).
func (r *Ref) SPF(e *Ev) uint32 {
	if e.SelfParent < 0 {
		return 0
	}
	return r.Evs[e.SelfParent].Frame
}

// Ref is the reference view of one epoch's DAG.
type Ref struct {
	Epoch   uint32
	IDs     []idx.ValidatorID
	Weights []uint64
	Total   uint64
	Quorum  uint64
	Canon   []int // validator positions in canonical order (weight desc, id asc)
	Evs     []*Ev
	Cap     int
	ByCreat [][]int

	forkCache map[[2]int32]bool
	fcCache   map[[2]int32]bool
	rootsAt   map[uint32][]int // frame -> events that are roots of that frame (claimed frames)
}

// New creates a reference for one epoch. capacity bounds the number of events.
func New(epoch uint32, ids []idx.ValidatorID, weights []pos.Weight, capacity int) *Ref {
	r := &Ref{Epoch: epoch, IDs: append([]idx.ValidatorID{}, ids...), Cap: capacity,
		forkCache: map[[2]int32]bool{}, fcCache: map[[2]int32]bool{}, rootsAt: map[uint32][]int{}}
	for _, w := range weights {
		r.Weights = append(r.Weights, uint64(w))
		r.Total += uint64(w)
	}
	r.Quorum = r.Total*2/3 + 1
	r.Canon = make([]int, len(ids))
	for i := range ids {
		r.Canon[i] = i
	}
	sort.SliceStable(r.Canon, func(a, b int) bool {
		x, y := r.Canon[a], r.Canon[b]
		if r.Weights[x] != r.Weights[y] {
			return r.Weights[x] > r.Weights[y]
		}
		return r.IDs[x] < r.IDs[y]
	})
	r.ByCreat = make([][]int, len(ids))
	return r
}

// Validators builds the repo's validator set for this reference.
func (r *Ref) Validators() *pos.Validators {
	b := pos.NewBuilder()
	for i, id := range r.IDs {
		b.Set(id, pos.Weight(r.Weights[i]))
	}
	return b.Build()
}

// Proto describes an event before its frame and ID are fixed.
type Proto struct {
	Creator    int
	SelfParent int   // -1 for none
	Others     []int // other parents (distinct, not the self-parent)
	Salt       uint32
}

// Prepare computes the derived fields of a candidate (seq, lamport, ancestry) without adding it.
func (r *Ref) Prepare(p Proto) *Ev {
	e := &Ev{I: len(r.Evs), Creator: p.Creator, SelfParent: p.SelfParent, Epoch: r.Epoch, Salt: p.Salt}
	e.Seq = 1
	if p.SelfParent >= 0 {
		e.Seq = r.Evs[p.SelfParent].Seq + 1
		e.Parents = append(e.Parents, p.SelfParent)
	}
	e.Parents = append(e.Parents, p.Others...)
	e.Anc = newBits(r.Cap)
	var maxL uint32
	for _, pi := range e.Parents {
		pe := r.Evs[pi]
		e.Anc.Or(pe.Anc)
		if pe.Lamport > maxL {
			maxL = pe.Lamport
		}
	}
	e.Anc.Set(e.I)
	e.Lamport = maxL + 1
	return e
}

// Commit adds a prepared event with the given claimed frame and fixes its ID.
func (r *Ref) Commit(e *Ev, frame uint32) *Ev {
	if e.I != len(r.Evs) {
		panic("graphref: stale prepared event")
	}
	if e.I >= r.Cap {
		panic("graphref: capacity exceeded")
	}
	r.Allowed(e)
	e.Frame = frame
	e.ID = r.MakeID(e)
	r.Evs = append(r.Evs, e)
	r.ByCreat[e.Creator] = append(r.ByCreat[e.Creator], e.I)
	for f := r.SPF(e) + 1; f <= e.Frame; f++ {
		r.rootsAt[f] = append(r.rootsAt[f], e.I)
	}
	return e
}

// MakeID hashes the whole content of the event (including the claimed frame), the way real
// callers derive IDs from content; the first 8 bytes carry epoch and Lamport time.
func (r *Ref) MakeID(e *Ev) hash.Event {
	h := sha256.New()
	var b [4]byte
	w := func(v uint32) {
		binary.BigEndian.PutUint32(b[:], v)
		h.Write(b[:])
	}
	w(e.Epoch)
	w(uint32(r.IDs[e.Creator]))
	w(e.Seq)
	w(e.Lamport)
	w(e.Frame)
	w(e.Salt)
	for _, p := range e.Parents {
		h.Write(r.Evs[p].ID[:])
	}
	sum := h.Sum(nil)
	var id hash.Event
	binary.BigEndian.PutUint32(id[0:4], e.Epoch)
	binary.BigEndian.PutUint32(id[4:8], e.Lamport)
	copy(id[8:], sum[:24])
	return id
}

// DagEvent converts a reference event into the repo's event type with the given claimed frame.
func (r *Ref) DagEvent(e *Ev, frame uint32) *dag.MutableBaseEvent {
	me := &dag.MutableBaseEvent{}
	me.SetEpoch(idx.Epoch(e.Epoch))
	me.SetSeq(idx.Event(e.Seq))
	me.SetFrame(idx.Frame(frame))
	me.SetCreator(r.IDs[e.Creator])
	me.SetLamport(idx.Lamport(e.Lamport))
	ps := make(hash.Events, len(e.Parents))
	for i, p := range e.Parents {
		ps[i] = r.Evs[p].ID
	}
	me.SetParents(ps)
	cp := *e
	cp.Frame = frame
	id := r.MakeID(&cp)
	var tail [24]byte
	copy(tail[:], id[8:])
	me.SetID(tail)
	return me
}

// ForkSeen: do the ancestors-or-self of event (given by its ancestry set) contain two different
// events of validator v with the same sequence number?
func (r *Ref) forkSeenIn(anc Bits, v int) bool {
	seen := map[uint32]bool{}
	for _, x := range r.ByCreat[v] {
		if anc.Has(x) {
			s := r.Evs[x].Seq
			if seen[s] {
				return true
			}
			seen[s] = true
		}
	}
	return false
}

// ForkSeen for a committed event (memoised).
func (r *Ref) ForkSeen(a, v int) bool {
	k := [2]int32{int32(a), int32(v)}
	if res, ok := r.forkCache[k]; ok {
		return res
	}
	res := r.forkSeenIn(r.Evs[a].Anc, v)
	r.forkCache[k] = res
	return res
}

// Merged is the merged vector clock entry of event a for validator v.
func (r *Ref) Merged(a, v int) (fork bool, seq uint32) {
	if r.ForkSeen(a, v) {
		return true, 0
	}
	for _, x := range r.ByCreat[v] {
		if r.Evs[a].Anc.Has(x) && r.Evs[x].Seq > seq {
			seq = r.Evs[x].Seq
		}
	}
	return false, seq
}

// fcIn is forkless cause from the definition: A (ancestry anc, which includes A itself) is
// forkless-caused by B.
func (r *Ref) fcIn(anc Bits, forkSeen func(v int) bool, b int) bool {
	if forkSeen(r.Evs[b].Creator) {
		return false
	}
	var w uint64
	for v := range r.IDs {
		if forkSeen(v) {
			continue
		}
		for _, x := range r.ByCreat[v] {
			if anc.Has(x) && r.Evs[x].Anc.Has(b) {
				w += r.Weights[v]
				break
			}
		}
	}
	return w >= r.Quorum
}

// FC: is committed event a forkless-caused by committed event b?
func (r *Ref) FC(a, b int) bool {
	k := [2]int32{int32(a), int32(b)}
	if res, ok := r.fcCache[k]; ok {
		return res
	}
	res := r.fcIn(r.Evs[a].Anc, func(v int) bool { return r.ForkSeen(a, v) }, b)
	r.fcCache[k] = res
	return res
}

// fcCandidate: FC for a prepared (not committed) event. The candidate's own creator counts with
// the candidate itself (it is in its own ancestry and a descendant-or-self of b iff b is an ancestor).
func (r *Ref) fcCandidate(e *Ev, b int) bool {
	fs := func(v int) bool { return r.forkSeenCandidate(e, v) }
	if fs(r.Evs[b].Creator) {
		return false
	}
	var w uint64
	for v := range r.IDs {
		if fs(v) {
			continue
		}
		found := false
		if v == e.Creator && e.Anc.Has(b) {
			found = true // the candidate itself is an event of v that descends from b
		}
		if !found {
			for _, x := range r.ByCreat[v] {
				if e.Anc.Has(x) && r.Evs[x].Anc.Has(b) {
					found = true
					break
				}
			}
		}
		if found {
			w += r.Weights[v]
		}
	}
	return w >= r.Quorum
}

func (r *Ref) forkSeenCandidate(e *Ev, v int) bool {
	seen := map[uint32]bool{}
	if v == e.Creator {
		seen[e.Seq] = true
	}
	for _, x := range r.ByCreat[v] {
		if e.Anc.Has(x) {
			s := r.Evs[x].Seq
			if seen[s] {
				return true
			}
			seen[s] = true
		}
	}
	return false
}

// RootsAt returns the events that are roots of frame f (self-parent frame < f <= own frame).
func (r *Ref) RootsAt(f uint32) []int { return r.rootsAt[f] }

// Allowed returns the inclusive range of frames the frame rule allows for a prepared event.
func (r *Ref) Allowed(e *Ev) (lo, hi uint32) {
	if e.allowedSet {
		return e.Lo, e.Hi
	}
	if e.I != len(r.Evs) {
		panic("graphref: Allowed on a stale candidate")
	}
	e.allowedSet = true
	if e.SelfParent < 0 {
		e.Lo, e.Hi, e.HiProcess = 1, 1, 1
		return 1, 1
	}
	spf := r.Evs[e.SelfParent].Frame
	f := spf
	for r.quorumOn(e, f) {
		f++
	}
	e.Lo, e.Hi, e.HiProcess = spf, f, f
	if e.Hi > spf+100 {
		e.Hi = spf + 100 // Build looks at most 100 frames ahead
	}
	return e.Lo, e.Hi
}

// quorumOn: is the candidate forkless-caused by roots of frame g held by a quorum of weight?
func (r *Ref) quorumOn(e *Ev, g uint32) bool {
	counted := map[int]bool{}
	var w uint64
	for _, root := range r.rootsAt[g] {
		c := r.Evs[root].Creator
		if counted[c] {
			continue
		}
		if r.fcCandidate(e, root) {
			counted[c] = true
			w += r.Weights[c]
		}
	}
	return w >= r.Quorum
}

// Block is one decided frame of the reference election.
type Block struct {
	Frame     uint32
	Atropos   int
	Cheaters  []idx.ValidatorID
	Delivered []int  // new ancestry of the Atropos, ascending event index
	Round     uint32 // frame distance of the earliest deciding root for the Atropos' validator
	NoBefore  int    // number of validators decided "no" before the Atropos' validator
	Ties      int    // number of exact yes==no ties met while voting on this frame
}

// ElectResult is the outcome of the naive election over all committed events.
type ElectResult struct {
	Blocks []Block
	// Broken is set when the reference met a situation that is only possible with >= 1/3 Byzantine
	// weight (a root forkless-caused by two fork roots of one validator, disagreeing decisions,
	// everybody decided "no"); the blocks before that point are still valid.
	Broken string
}

type slot struct {
	ev    int
	frame uint32
}

type vote struct {
	yes      bool
	decided  bool
	observed int // event index of the voted root of the subject (when yes)
}

// Elect runs the naive election frame by frame until a frame cannot be decided. maxBlocks <= 0
// means no limit.
func (r *Ref) Elect(maxBlocks int) ElectResult {
	var res ElectResult
	delivered := newBits(r.Cap)
	maxFrame := uint32(0)
	for f := range r.rootsAt {
		if f > maxFrame {
			maxFrame = f
		}
	}
	for d := uint32(1); d <= maxFrame; d++ {
		blk, status := r.electFrame(d, maxFrame)
		if status == "undecided" {
			break
		}
		if status != "" {
			res.Broken = fmt.Sprintf("frame %d: %s", d, status)
			break
		}
		at := r.Evs[blk.Atropos]
		for _, v := range r.Canon {
			if r.ForkSeen(blk.Atropos, v) {
				blk.Cheaters = append(blk.Cheaters, r.IDs[v])
			}
		}
		for i := 0; i < len(r.Evs); i++ {
			if at.Anc.Has(i) && !delivered.Has(i) {
				blk.Delivered = append(blk.Delivered, i)
				delivered.Set(i)
			}
		}
		res.Blocks = append(res.Blocks, *blk)
		if maxBlocks > 0 && len(res.Blocks) >= maxBlocks {
			break
		}
	}
	return res
}

func (r *Ref) electFrame(d, maxFrame uint32) (*Block, string) {
	n := len(r.IDs)
	votes := map[slot][]vote{}
	type dec struct {
		yes      bool
		observed int
		round    uint32
	}
	decided := make([]*dec, n)
	ties := 0
	for f := d + 1; f <= maxFrame; f++ {
		for _, e := range r.rootsAt[f] {
			vs := make([]vote, n)
			if f == d+1 {
				for subj := 0; subj < n; subj++ {
					obs := -1
					for _, root := range r.rootsAt[d] {
						if r.Evs[root].Creator == subj && r.FC(e, root) {
							if obs >= 0 && obs != root {
								return nil, "a root is forkless-caused by two fork roots of one validator"
							}
							obs = root
						}
					}
					vs[subj] = vote{yes: obs >= 0, observed: obs}
				}
			} else {
				// previous-frame roots that forkless-cause e
				var prev []int
				seenCreator := map[int]bool{}
				for _, root := range r.rootsAt[f-1] {
					if r.FC(e, root) {
						c := r.Evs[root].Creator
						if seenCreator[c] {
							return nil, "a root is forkless-caused by two fork roots of one validator"
						}
						seenCreator[c] = true
						prev = append(prev, root)
					}
				}
				for subj := 0; subj < n; subj++ {
					var yesW, noW uint64
					obs := -1
					for _, root := range prev {
						pv := votes[slot{root, f - 1}][subj]
						if pv.yes {
							if obs >= 0 && pv.observed != obs {
								return nil, "yes votes for two fork roots of one validator meet"
							}
							obs = pv.observed
							yesW += r.Weights[r.Evs[root].Creator]
						} else {
							noW += r.Weights[r.Evs[root].Creator]
						}
					}
					if yesW+noW < r.Quorum {
						return nil, "a root is not forkless-caused by a quorum of previous roots (frames inconsistent)"
					}
					v := vote{yes: yesW >= noW}
					if yesW == noW {
						ties++
					}
					if v.yes {
						v.observed = obs
					}
					v.decided = yesW >= r.Quorum || noW >= r.Quorum
					vs[subj] = v
					if v.decided {
						if decided[subj] == nil {
							decided[subj] = &dec{yes: v.yes, observed: v.observed, round: f - d}
						} else if decided[subj].yes != v.yes || (v.yes && decided[subj].observed != v.observed) {
							return nil, "two roots decided differently on one validator"
						}
					}
				}
			}
			votes[slot{e, f}] = vs
		}
	}
	noBefore := 0
	for _, v := range r.Canon {
		if decided[v] == nil {
			return nil, "undecided"
		}
		if decided[v].yes {
			if decided[v].observed < 0 {
				return nil, "decided yes without an observed root"
			}
			return &Block{Frame: d, Atropos: decided[v].observed, Round: decided[v].round, NoBefore: noBefore, Ties: ties}, ""
		}
		noBefore++
	}
	return nil, "all validators decided no"
}

// Topo returns a parents-first order of the committed events driven by priorities (Kahn's
// algorithm with a priority pick): every topological order is reachable by some priorities.
func (r *Ref) Topo(prio []int) []int {
	n := len(r.Evs)
	indeg := make([]int, n)
	children := make([][]int, n)
	for _, e := range r.Evs {
		indeg[e.I] = len(e.Parents)
		for _, p := range e.Parents {
			children[p] = append(children[p], e.I)
		}
	}
	var ready []int
	for i := 0; i < n; i++ {
		if indeg[i] == 0 {
			ready = append(ready, i)
		}
	}
	order := make([]int, 0, n)
	for len(ready) > 0 {
		best := 0
		for k := 1; k < len(ready); k++ {
			a, b := ready[k], ready[best]
			if prio[a] < prio[b] || (prio[a] == prio[b] && a < b) {
				best = k
			}
		}
		x := ready[best]
		ready = append(ready[:best], ready[best+1:]...)
		order = append(order, x)
		for _, c := range children[x] {
			indeg[c]--
			if indeg[c] == 0 {
				ready = append(ready, c)
			}
		}
	}
	return order
}
