package kvmodel

import (
	"bytes"
	"fmt"

	"github.com/Fantom-foundation/lachesis-base/kvdb"
)

// MaxDrain bounds every iterator drain so that a looping iterator is reported, not hung on.
const MaxDrain = 100000

// Drain reads up to n further pairs from it (n < 0: to exhaustion), copying keys and values.
// done reports that Next returned false.
func Drain(it kvdb.Iterator, n int) (pairs []Pair, done bool, err error) {
	for n < 0 || len(pairs) < n {
		if !it.Next() {
			return pairs, true, it.Error()
		}
		pairs = append(pairs, Pair{K: cp(it.Key()), V: cp(it.Value())})
		if len(pairs) > MaxDrain {
			return pairs, false, fmt.Errorf("iterator produced more than %d pairs", MaxDrain)
		}
	}
	return pairs, false, it.Error()
}

// CheckGetHas compares Get and Has of k with the model: a present key (also one with an empty
// value) must give a non-nil equal value and Has == true, an absent key gives nil and false.
func CheckGetHas(r kvdb.Reader, want *Map, k []byte) error {
	wv, wok := want.Get(k)
	got, err := r.Get(k)
	if err != nil {
		return fmt.Errorf("Get(%x) error: %v", k, err)
	}
	has, err := r.Has(k)
	if err != nil {
		return fmt.Errorf("Has(%x) error: %v", k, err)
	}
	if has != wok {
		return fmt.Errorf("Has(%x) = %v, model says %v", k, has, wok)
	}
	if wok {
		if got == nil {
			return fmt.Errorf("Get(%x) = nil, model has value %s (a present key must not read as absent)", k, FormatBytes(wv))
		}
		if !bytes.Equal(got, wv) {
			return fmt.Errorf("Get(%x) = %s, model has %s", k, FormatBytes(got), FormatBytes(wv))
		}
	} else if got != nil {
		return fmt.Errorf("Get(%x) = %s, model says absent", k, FormatBytes(got))
	}
	return nil
}

// CheckIterate opens a fresh iterator (prefix, start) on r, drains and releases it and compares
// the pairs with the model's Iterate. After exhaustion Next must keep returning false.
func CheckIterate(r kvdb.Iteratee, want *Map, prefix, start []byte) error {
	exp := want.Iterate(prefix, start)
	it := r.NewIterator(prefix, start)
	got, done, err := Drain(it, -1)
	again := false
	if done {
		again = it.Next()
	}
	it.Release()
	if err != nil {
		return fmt.Errorf("iterate(%s,%s) error: %v", FormatBytes(prefix), FormatBytes(start), err)
	}
	if !EqualPairs(got, exp) {
		return fmt.Errorf("iterate(%s,%s) = %s, model says %s", FormatBytes(prefix), FormatBytes(start), FormatPairs(got), FormatPairs(exp))
	}
	if again {
		return fmt.Errorf("iterate(%s,%s): Next returned true after it had returned false", FormatBytes(prefix), FormatBytes(start))
	}
	return nil
}

// CheckAll compares the full content of r with the model.
func CheckAll(r kvdb.Iteratee, want *Map) error { return CheckIterate(r, want, nil, nil) }

// Recorder is a kvdb.Writer that records what a batch replay delivers.
type Recorder struct {
	Batch
	NilValue bool // a Put was delivered with a nil value
}

// Put implements kvdb.Writer.
func (r *Recorder) Put(k, v []byte) error {
	if v == nil {
		r.NilValue = true
	}
	r.Batch.Put(k, v)
	return nil
}

// Delete implements kvdb.Writer.
func (r *Recorder) Delete(k []byte) error {
	r.Batch.Delete(k)
	return nil
}

// CheckReplay replays b into a recorder and compares with the model batch: same ops, same
// order, same (un-prefixed) keys and values.
func CheckReplay(b kvdb.Batch, want *Batch) error {
	rec := &Recorder{}
	if err := b.Replay(rec); err != nil {
		return fmt.Errorf("Replay error: %v", err)
	}
	if len(rec.Ops) != len(want.Ops) {
		return fmt.Errorf("Replay delivered %v, model batch is %v", rec.Ops, want.Ops)
	}
	for i, o := range rec.Ops {
		w := want.Ops[i]
		if o.Del != w.Del || !bytes.Equal(o.K, w.K) || (!o.Del && !bytes.Equal(o.V, w.V)) {
			return fmt.Errorf("Replay op %d is %v, model has %v (delivered %v, model %v)", i, o, w, rec.Ops, want.Ops)
		}
	}
	return nil
}
