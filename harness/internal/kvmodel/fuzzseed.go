package kvmodel

import "testing"

// SeedCorpus gives a native fuzz target built with rapid.MakeFuzz a few long pseudo-random
// inputs to mutate (rapid consumes 8 input bytes per draw and rejects inputs that run out, so
// the engine's default empty input is a poor starting point). The bytes come from a fixed
// xorshift sequence: the corpus is the same on every run.
func SeedCorpus(f *testing.F) {
	for s := uint64(1); s <= 6; s++ {
		b := make([]byte, 1024+512*int(s%3))
		x := s * 0x9e3779b97f4a7c15
		for i := range b {
			x ^= x << 13
			x ^= x >> 7
			x ^= x << 17
			b[i] = byte(x >> 32)
		}
		f.Add(b)
	}
}
