package kvmodel

import (
	"strings"

	"pgregory.net/rapid"
)

// Alphabet is the byte alphabet of keys, prefixes and start keys (DESIGN.md §3.4): it makes
// keys collide on prefixes and reaches the 0xff carry of prefix-range computations.
var Alphabet = []byte{0x00, 0x01, 0x7f, 0xfe, 0xff}

// ValueAlphabet is the byte alphabet of values.
var ValueAlphabet = []byte{0x00, 0x01, 0x2a, 0x80, 0xff}

func bytesOf(t *rapid.T, label string, alphabet []byte, min, max int) []byte {
	n := rapid.IntRange(min, max).Draw(t, label+".len")
	b := make([]byte, n) // non-nil also for n == 0
	for i := range b {
		b[i] = rapid.SampledFrom(alphabet).Draw(t, label+".b")
	}
	return b
}

// Key draws a non-nil key of length 0..3 over Alphabet.
func Key(t *rapid.T, label string) []byte { return bytesOf(t, label, Alphabet, 0, 3) }

// KeyLen draws a non-nil key of length min..max over Alphabet.
func KeyLen(t *rapid.T, label string, min, max int) []byte {
	return bytesOf(t, label, Alphabet, min, max)
}

// Value draws a non-nil value of length 0..2 (the empty value has its own class).
func Value(t *rapid.T, label string) []byte {
	if rapid.IntRange(0, 4).Draw(t, label+".empty") == 0 {
		return []byte{}
	}
	return bytesOf(t, label, ValueAlphabet, 1, 2)
}

// Bound draws an iterator prefix or start key: nil, empty non-nil, or a key of length 1..max.
// nil and empty are separate classes because the backends branch on them.
func Bound(t *rapid.T, label string, max int) []byte {
	switch rapid.IntRange(0, 9).Draw(t, label+".class") {
	case 0, 1:
		return nil
	case 2:
		return []byte{}
	}
	return bytesOf(t, label, Alphabet, 1, max)
}

// KeyNear draws a key biased towards collisions with the existing keys: an existing key, a
// neighbour of one (last byte changed, dropped, or a byte appended), or a fresh key.
func KeyNear(t *rapid.T, label string, existing []string) []byte {
	if len(existing) == 0 {
		return Key(t, label)
	}
	c := rapid.IntRange(0, 9).Draw(t, label+".near")
	if c >= 7 {
		return Key(t, label)
	}
	k := []byte(rapid.SampledFrom(existing).Draw(t, label+".of"))
	switch c {
	case 4:
		if len(k) > 0 {
			k[len(k)-1] = rapid.SampledFrom(Alphabet).Draw(t, label+".b")
		}
	case 5:
		if len(k) > 0 {
			k = k[:len(k)-1]
		}
	case 6:
		k = append(k, rapid.SampledFrom(Alphabet).Draw(t, label+".b"))
	}
	return append([]byte{}, k...)
}

// PrefixNear draws an iterator prefix: nil, empty, a prefix of an existing key (so that the
// range is populated), or a fresh one.
func PrefixNear(t *rapid.T, label string, existing []string) []byte {
	c := rapid.IntRange(0, 9).Draw(t, label+".class")
	switch {
	case c <= 1:
		return nil
	case c == 2:
		return []byte{}
	case c <= 6 && len(existing) > 0:
		k := rapid.SampledFrom(existing).Draw(t, label+".of")
		n := rapid.IntRange(0, len(k)).Draw(t, label+".cut")
		return []byte(k[:n])
	}
	return bytesOf(t, label, Alphabet, 1, 2)
}

// StartNear draws a start key for the given prefix: nil, empty, the remainder of an existing
// key under the prefix (possibly cut or with its last byte changed), or a fresh one.
func StartNear(t *rapid.T, label string, prefix []byte, existing []string) []byte {
	c := rapid.IntRange(0, 9).Draw(t, label+".class")
	switch {
	case c <= 1:
		return nil
	case c == 2:
		return []byte{}
	case c <= 6:
		var under []string
		for _, k := range existing {
			if strings.HasPrefix(k, string(prefix)) {
				under = append(under, k[len(prefix):])
			}
		}
		if len(under) > 0 {
			s := []byte(rapid.SampledFrom(under).Draw(t, label+".of"))
			switch rapid.IntRange(0, 2).Draw(t, label+".mod") {
			case 1:
				if len(s) > 0 {
					s = s[:rapid.IntRange(0, len(s)).Draw(t, label+".cut")]
				}
			case 2:
				if len(s) > 0 {
					s[len(s)-1] = rapid.SampledFrom(Alphabet).Draw(t, label+".b")
				}
			}
			return append([]byte{}, s...)
		}
	}
	return bytesOf(t, label, Alphabet, 1, 3)
}

// EndsFF reports whether b is non-empty and ends in 0xff (the carry case of prefix ranges).
func EndsFF(b []byte) bool { return len(b) > 0 && b[len(b)-1] == 0xff }

// RangeFF draws a (prefix, start) pair whose prefix ends in 0xff (the carry case of the
// backends' range computation) and is populated, with a non-empty start key at or below an
// existing key, so that the iteration has to position itself inside a 0xff-bounded range.
// ok is false when no existing key contains a 0xff byte.
func RangeFF(t *rapid.T, label string, existing []string) (prefix, start []byte, ok bool) {
	var with []string
	for _, k := range existing {
		if strings.IndexByte(k, 0xff) >= 0 {
			with = append(with, k)
		}
	}
	if len(with) == 0 {
		return nil, nil, false
	}
	k := rapid.SampledFrom(with).Draw(t, label+".of")
	var pos []int
	for i := 0; i < len(k); i++ {
		if k[i] == 0xff {
			pos = append(pos, i)
		}
	}
	i := rapid.SampledFrom(pos).Draw(t, label+".at")
	prefix = []byte(k[:i+1])
	start = []byte(k[i+1:])
	switch rapid.IntRange(0, 3).Draw(t, label+".mod") {
	case 1:
		if len(start) > 1 {
			start = start[:rapid.IntRange(1, len(start)).Draw(t, label+".cut")]
		}
	case 2:
		if len(start) > 0 {
			start[len(start)-1] = rapid.SampledFrom(Alphabet).Draw(t, label+".b")
		}
	case 3:
		start = append(start, rapid.SampledFrom(Alphabet).Draw(t, label+".b"))
	}
	if len(start) == 0 {
		start = []byte{0x00}
	}
	return prefix, start, true
}
