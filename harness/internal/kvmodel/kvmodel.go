// Package kvmodel is the reference model of the key-value layer (DESIGN.md §3.4): an ordered
// byte-string map with prefix/start iteration, deep-copy snapshots and batches as op lists,
// plus the colliding key/value alphabets the KV properties (C22, C23, C24) draw from.
//
// The model is written from the property texts, not from the code under test: a store is a
// finite map from byte strings to non-nil byte strings; iterate(prefix, start) lists, in
// ascending byte order, the pairs whose key has the prefix and is >= prefix+start.
package kvmodel

import (
	"bytes"
	"fmt"
	"sort"
	"strings"
)

// Pair is one key/value pair.
type Pair struct {
	K, V []byte
}

func (p Pair) String() string {
	if len(p.V) > 64 {
		return fmt.Sprintf("%x=<%d bytes %x..%x>", p.K, len(p.V), p.V[:4], p.V[len(p.V)-4:])
	}
	return fmt.Sprintf("%x=%x", p.K, p.V)
}

// Map is the ordered byte-string map. Values are never nil (an empty value is a value).
type Map struct {
	m map[string][]byte
}

// New returns an empty map.
func New() *Map { return &Map{m: map[string][]byte{}} }

func cp(b []byte) []byte {
	c := make([]byte, len(b))
	copy(c, b)
	return c
}

// Put stores a copy of v (nil is stored as the empty value) under k.
func (m *Map) Put(k, v []byte) { m.m[string(k)] = cp(v) }

// Delete removes k.
func (m *Map) Delete(k []byte) { delete(m.m, string(k)) }

// Get returns the value (non-nil) and whether the key is present.
func (m *Map) Get(k []byte) ([]byte, bool) {
	v, ok := m.m[string(k)]
	return v, ok
}

// Has reports presence of k.
func (m *Map) Has(k []byte) bool {
	_, ok := m.m[string(k)]
	return ok
}

// Len is the number of keys.
func (m *Map) Len() int { return len(m.m) }

// Keys returns all keys in ascending byte order.
func (m *Map) Keys() []string {
	ks := make([]string, 0, len(m.m))
	for k := range m.m {
		ks = append(ks, k)
	}
	sort.Strings(ks) // Go string comparison is byte-wise
	return ks
}

// Clone is a deep copy (the model of a snapshot).
func (m *Map) Clone() *Map {
	c := &Map{m: make(map[string][]byte, len(m.m))}
	for k, v := range m.m {
		c.m[k] = cp(v)
	}
	return c
}

// Equal compares contents.
func (m *Map) Equal(o *Map) bool {
	if len(m.m) != len(o.m) {
		return false
	}
	for k, v := range m.m {
		w, ok := o.m[k]
		if !ok || !bytes.Equal(v, w) {
			return false
		}
	}
	return true
}

// Iterate is the specification of NewIterator(prefix, start): all pairs whose key has the
// prefix and is >= prefix+start, ascending. nil and empty prefix/start mean the same.
func (m *Map) Iterate(prefix, start []byte) []Pair {
	lo := string(prefix) + string(start)
	var res []Pair
	for _, k := range m.Keys() {
		if strings.HasPrefix(k, string(prefix)) && k >= lo {
			res = append(res, Pair{K: []byte(k), V: m.m[k]})
		}
	}
	return res
}

// All lists every pair in ascending order.
func (m *Map) All() []Pair { return m.Iterate(nil, nil) }

// SubView is the specification of a table with the given prefix: the part of the map whose
// keys start with prefix, with the prefix removed.
func (m *Map) SubView(prefix []byte) *Map {
	v := New()
	for k, val := range m.m {
		if strings.HasPrefix(k, string(prefix)) {
			v.m[k[len(prefix):]] = cp(val)
		}
	}
	return v
}

func (m *Map) String() string {
	var sb strings.Builder
	sb.WriteString("{")
	for i, p := range m.All() {
		if i > 0 {
			sb.WriteString(" ")
		}
		sb.WriteString(p.String())
	}
	sb.WriteString("}")
	return sb.String()
}

// Op is one batched write.
type Op struct {
	Del  bool
	K, V []byte
}

func (o Op) String() string {
	if o.Del {
		return fmt.Sprintf("del(%x)", o.K)
	}
	return fmt.Sprintf("put(%x,%x)", o.K, o.V)
}

// Batch is the model of a write batch: an ordered op list.
type Batch struct {
	Ops []Op
}

// Put appends a put.
func (b *Batch) Put(k, v []byte) { b.Ops = append(b.Ops, Op{K: cp(k), V: cp(v)}) }

// Delete appends a delete.
func (b *Batch) Delete(k []byte) { b.Ops = append(b.Ops, Op{Del: true, K: cp(k)}) }

// Reset empties the batch.
func (b *Batch) Reset() { b.Ops = b.Ops[:0] }

// Apply writes the ops in order into m.
func (b *Batch) Apply(m *Map) {
	for _, o := range b.Ops {
		if o.Del {
			m.Delete(o.K)
		} else {
			m.Put(o.K, o.V)
		}
	}
}

// FormatPairs renders a pair list.
func FormatPairs(ps []Pair) string {
	var sb strings.Builder
	sb.WriteString("[")
	for i, p := range ps {
		if i > 0 {
			sb.WriteString(" ")
		}
		sb.WriteString(p.String())
	}
	sb.WriteString("]")
	return sb.String()
}

// FormatBytes renders nil and empty distinguishably.
func FormatBytes(b []byte) string {
	if b == nil {
		return "nil"
	}
	if len(b) > 64 {
		return fmt.Sprintf("<%d bytes %x..%x>", len(b), b[:4], b[len(b)-4:])
	}
	return fmt.Sprintf("%q", fmt.Sprintf("%x", b))
}

// EqualPairs compares two pair lists (nil and empty values are equal as iterator values: the
// key being listed is what says it is present).
func EqualPairs(a, b []Pair) bool {
	if len(a) != len(b) {
		return false
	}
	for i := range a {
		if !bytes.Equal(a[i].K, b[i].K) || !bytes.Equal(a[i].V, b[i].V) {
			return false
		}
	}
	return true
}
