// Package scen runs generated multi-epoch scenarios on consensus instances.
package scen

import (
	"fmt"

	"github.com/Fantom-foundation/lachesis-base/hash"
	"github.com/Fantom-foundation/lachesis-base/inter/idx"
	"github.com/Fantom-foundation/lachesis-base/inter/pos"

	"verif/harness/internal/cons"
	"verif/harness/internal/dagen"
	"verif/harness/internal/graphref"
)

// PlanFor returns the plan of an epoch number.
func PlanFor(sc *dagen.Scenario, epoch idx.Epoch) *dagen.EpochPlan {
	k := int(uint32(epoch) - sc.FirstEpoch)
	if uint32(epoch) < sc.FirstEpoch || k >= len(sc.Epochs) {
		return nil
	}
	return sc.Epochs[k]
}

// NextValidators builds the validator set a plan seals with.
func NextValidators(p *dagen.EpochPlan) *pos.Validators {
	b := pos.NewBuilder()
	for i, id := range p.NextIDs {
		b.Set(id, p.NextWs[i])
	}
	return b.Build()
}

// SealFn implements the scenario's sealing policy for the EndBlock callback.
func SealFn(sc *dagen.Scenario) cons.SealFn {
	return func(epoch idx.Epoch, frame idx.Frame) *pos.Validators {
		p := PlanFor(sc, epoch)
		if p == nil || p.SealAt == 0 || int(frame) != p.SealAt {
			return nil
		}
		return NextValidators(p)
	}
}

// Describe prints a DAG compactly (for failure messages and samples).
func Describe(ref *graphref.Ref) []string {
	var out []string
	for _, e := range ref.Evs {
		out = append(out, fmt.Sprintf("e%d{v%d seq%d par%v frame%d}", e.I, e.Creator, e.Seq, e.Parents, e.Frame))
	}
	return out
}

// DescribeScenario prints the validators and DAG of every epoch.
func DescribeScenario(sc *dagen.Scenario) []string {
	var out []string
	for _, p := range sc.Epochs {
		out = append(out, fmt.Sprintf("epoch %d ids=%v weights=%v forkers=%v sealAt=%d next=%s", p.Ref.Epoch, p.Ref.IDs, p.Ref.Weights, p.Info.Forkers, p.SealAt, p.NextKind))
		out = append(out, Describe(p.Ref)...)
	}
	return out
}

// IndexOf maps event IDs of a reference to event indexes.
func IndexOf(ref *graphref.Ref) map[hash.Event]int {
	m := make(map[hash.Event]int, len(ref.Evs))
	for _, e := range ref.Evs {
		m[e.ID] = e.I
	}
	return m
}

// FeedResult reports how an epoch's events were consumed by an instance.
type FeedResult struct {
	Fed      int   // events processed
	Err      error // first Process error
	ErrAt    int   // event index of the failing event
	Sealed   bool  // the instance left the epoch
	CritSeen bool
}

// FeedEpoch processes the epoch's events in the given order until the instance leaves the
// epoch (sealed), an error occurs or crit fires. after, when set, runs after every processed event.
func FeedEpoch(in *cons.Instance, ref *graphref.Ref, order []int, after func(i int)) FeedResult {
	var res FeedResult
	for _, i := range order {
		if in.Store.GetEpoch() != idx.Epoch(ref.Epoch) {
			res.Sealed = true
			return res
		}
		e := ref.Evs[i]
		err := in.Process(ref.DagEvent(e, e.Frame))
		if len(in.Crits) > 0 {
			res.CritSeen = true
		}
		if err != nil {
			res.Err, res.ErrAt = err, i
			return res
		}
		res.Fed++
		if after != nil {
			after(i)
		}
		if res.CritSeen {
			return res
		}
	}
	res.Sealed = in.Store.GetEpoch() != idx.Epoch(ref.Epoch)
	return res
}

// BlocksKey renders a block sequence for comparison.
func BlocksKey(bs []cons.BlockRec) []string {
	out := make([]string, len(bs))
	for i, b := range bs {
		out[i] = fmt.Sprintf("epoch=%d frame=%d atropos=%x cheaters=%v sealed=%v", b.Epoch, b.Frame, b.Atropos[:12], b.Cheaters, b.Sealed)
	}
	return out
}

// RebuildWithBuiltFrames replaces every epoch's reference DAG by a copy whose frames were assigned by
// IndexedLachesis.Build on a fresh generator instance (the way a real node creates events: Build, then
// Process) instead of by the reference frame rule. On a correct implementation the copy is identical.
// Sealing frames beyond what the rebuilt DAG decides are cut back; later epochs are dropped then.
func RebuildWithBuiltFrames(sc *dagen.Scenario, cfg cons.Config) error {
	for k, plan := range sc.Epochs {
		old := plan.Ref
		ids := old.IDs
		ws := make([]pos.Weight, len(old.Weights))
		for i, w := range old.Weights {
			ws[i] = pos.Weight(w)
		}
		ref2 := graphref.New(old.Epoch, ids, ws, old.Cap)
		gen, err := cons.New(cons.NewEvents(), cfg, idx.Epoch(old.Epoch), ref2.Validators(), nil)
		if err != nil {
			return err
		}
		for _, e := range old.Evs {
			others := e.Parents
			if e.SelfParent >= 0 {
				others = e.Parents[1:]
			}
			e2 := ref2.Prepare(graphref.Proto{Creator: e.Creator, SelfParent: e.SelfParent, Others: others, Salt: e.Salt})
			me := ref2.DagEvent(e2, 0)
			if err := gen.L.Build(me); err != nil {
				return fmt.Errorf("epoch %d: Build(e%d) failed: %v", old.Epoch, e.I, err)
			}
			frame := uint32(me.Frame())
			if e.Frame != e.Hi {
				// keep the generator's deliberately non-maximal (but allowed) claims when they are still in range
				if e.Frame >= ref2.SPF(e2) && e.Frame <= frame {
					frame = e.Frame
				}
			}
			ref2.Commit(e2, frame)
			if err := gen.Process(ref2.DagEvent(e2, frame)); err != nil {
				return fmt.Errorf("epoch %d: the generator instance rejected e%d which it had built with frame %d: %v", old.Epoch, e.I, frame, err)
			}
			if len(gen.Crits) > 0 {
				return fmt.Errorf("epoch %d: generator instance crit at e%d: %v", old.Epoch, e.I, gen.Crits)
			}
		}
		plan.Ref = ref2
		plan.Elect = ref2.Elect(0)
		if plan.SealAt > len(plan.Elect.Blocks) {
			plan.SealAt = len(plan.Elect.Blocks)
		}
		if plan.SealAt == 0 && k+1 < len(sc.Epochs) {
			sc.Epochs = sc.Epochs[:k+1]
			break
		}
	}
	return nil
}
