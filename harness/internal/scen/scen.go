// Package scen runs generated multi-epoch scenarios on consensus instances.
package scen

import (
	"fmt"

	"github.com/Fantom-foundation/lachesis-base/hash"
	"github.com/Fantom-foundation/lachesis-base/inter/idx"
	"github.com/Fantom-foundation/lachesis-base/inter/pos"

	"verif/harness/internal/cons"
	"verif/harness/internal/dagen"
	"verif/harness/internal/graphref"
)

// PlanFor returns the plan of an epoch number.
func PlanFor(sc *dagen.Scenario, epoch idx.Epoch) *dagen.EpochPlan {
	k := int(uint32(epoch) - sc.FirstEpoch)
	if uint32(epoch) < sc.FirstEpoch || k >= len(sc.Epochs) {
		return nil
	}
	return sc.Epochs[k]
}

// NextValidators builds the validator set a plan seals with.
func NextValidators(p *dagen.EpochPlan) *pos.Validators {
	b := pos.NewBuilder()
	for i, id := range p.NextIDs {
		b.Set(id, p.NextWs[i])
	}
	return b.Build()
}

// SealFn implements the scenario's sealing policy for the EndBlock callback.
func SealFn(sc *dagen.Scenario) cons.SealFn {
	return func(epoch idx.Epoch, frame idx.Frame) *pos.Validators {
		p := PlanFor(sc, epoch)
		if p == nil || p.SealAt == 0 || int(frame) != p.SealAt {
			return nil
		}
		return NextValidators(p)
	}
}

// Describe prints a DAG compactly (for failure messages and samples).
func Describe(ref *graphref.Ref) []string {
	var out []string
	for _, e := range ref.Evs {
		out = append(out, fmt.Sprintf("e%d{v%d seq%d par%v frame%d}", e.I, e.Creator, e.Seq, e.Parents, e.Frame))
	}
	return out
}

// DescribeScenario prints the validators and DAG of every epoch.
func DescribeScenario(sc *dagen.Scenario) []string {
	var out []string
	for _, p := range sc.Epochs {
		out = append(out, fmt.Sprintf("epoch %d ids=%v weights=%v forkers=%v sealAt=%d next=%s", p.Ref.Epoch, p.Ref.IDs, p.Ref.Weights, p.Info.Forkers, p.SealAt, p.NextKind))
		out = append(out, Describe(p.Ref)...)
	}
	return out
}

// IndexOf maps event IDs of a reference to event indexes.
func IndexOf(ref *graphref.Ref) map[hash.Event]int {
	m := make(map[hash.Event]int, len(ref.Evs))
	for _, e := range ref.Evs {
		m[e.ID] = e.I
	}
	return m
}

// FeedResult reports how an epoch's events were consumed by an instance.
type FeedResult struct {
	Fed      int   // events processed
	Err      error // first Process error
	ErrAt    int   // event index of the failing event
	Sealed   bool  // the instance left the epoch
	CritSeen bool
}

// FeedEpoch processes the epoch's events in the given order until the instance leaves the
// epoch (sealed), an error occurs or crit fires. after, when set, runs after every processed event.
func FeedEpoch(in *cons.Instance, ref *graphref.Ref, order []int, after func(i int)) FeedResult {
	var res FeedResult
	for _, i := range order {
		if in.Store.GetEpoch() != idx.Epoch(ref.Epoch) {
			res.Sealed = true
			return res
		}
		e := ref.Evs[i]
		err := in.Process(ref.DagEvent(e, e.Frame))
		if len(in.Crits) > 0 {
			res.CritSeen = true
		}
		if err != nil {
			res.Err, res.ErrAt = err, i
			return res
		}
		res.Fed++
		if after != nil {
			after(i)
		}
		if res.CritSeen {
			return res
		}
	}
	res.Sealed = in.Store.GetEpoch() != idx.Epoch(ref.Epoch)
	return res
}

// BlocksKey renders a block sequence for comparison.
func BlocksKey(bs []cons.BlockRec) []string {
	out := make([]string, len(bs))
	for i, b := range bs {
		out[i] = fmt.Sprintf("epoch=%d frame=%d atropos=%x cheaters=%v sealed=%v", b.Epoch, b.Frame, b.Atropos[:12], b.Cheaters, b.Sealed)
	}
	return out
}
