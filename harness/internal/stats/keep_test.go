package stats

// keeps rapid and porcupine in the module graph of the harness (go.sum) even before the first user lands
import (
	_ "github.com/anishathalye/porcupine"
	_ "pgregory.net/rapid"
)
