package stats
import ("testing"; "pgregory.net/rapid"; _ "github.com/anishathalye/porcupine"; _ "github.com/Fantom-foundation/lachesis-base/abft"; _ "github.com/Fantom-foundation/lachesis-base/kvdb/pebble"; _ "github.com/Fantom-foundation/lachesis-base/kvdb/leveldb")
func TestX(t *testing.T){ rapid.Check(t, func(t *rapid.T){ _ = rapid.Int().Draw(t,"x") }) }
