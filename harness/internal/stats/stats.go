// Package stats collects what a property run actually covered (cases, classes,
// non-trivial distinct cases, samples) and writes it to $VERIF_STATS so that the
// driver can build the evidence file from measured numbers.
package stats

import (
	"bufio"
	"encoding/binary"
	"encoding/json"
	"fmt"
	"hash/fnv"
	"os"
	"sort"
	"strings"
	"sync"
)

// Collector accumulates coverage information for one test unit.
type Collector struct {
	mu          sync.Mutex
	Unit        string
	evaluations int64
	nontrivial  map[uint64]struct{}
	classes     map[string]int64
	samples     []interface{}
	sampleSeen  int64
	maxSamples  int
	extra       map[string]interface{}
	knownHits   map[string]string
	excluded    map[string]int64
	exhaustive  bool
	inconcl     int64
}

var (
	regMu sync.Mutex
	reg   []*Collector
)

// New registers a collector for a test unit (normally one per Test function).
func New(unit string) *Collector {
	c := &Collector{
		Unit:       unit,
		nontrivial: map[uint64]struct{}{},
		classes:    map[string]int64{},
		extra:      map[string]interface{}{},
		knownHits:  map[string]string{},
		excluded:   map[string]int64{},
		maxSamples: 4,
	}
	regMu.Lock()
	reg = append(reg, c)
	regMu.Unlock()
	return c
}

// Hash returns a 64-bit FNV hash of the description of a case.
func Hash(parts ...interface{}) uint64 {
	h := fnv.New64a()
	fmt.Fprint(h, parts...)
	return h.Sum64()
}

// Case records one generated case. key identifies the case (distinctness),
// nontrivial says whether it satisfies the property's non-triviality rule.
func (c *Collector) Case(key uint64, nontrivial bool, classes ...string) {
	c.mu.Lock()
	c.evaluations++
	if nontrivial {
		c.nontrivial[key] = struct{}{}
	}
	for _, cl := range classes {
		c.classes[cl]++
	}
	c.mu.Unlock()
}

// Evals adds n evaluations without distinctness bookkeeping (bulk enumerations).
func (c *Collector) Evals(n int64) {
	c.mu.Lock()
	c.evaluations += n
	c.mu.Unlock()
}

// Nontrivial adds a distinct non-trivial key without counting an evaluation.
func (c *Collector) Nontrivial(key uint64) {
	c.mu.Lock()
	c.nontrivial[key] = struct{}{}
	c.mu.Unlock()
}

// Class bumps class counters.
func (c *Collector) Class(cl string, n int64) {
	c.mu.Lock()
	c.classes[cl] += n
	c.mu.Unlock()
}

// Sample keeps a few of the offered cases (the first ones, then sparse later ones).
func (c *Collector) Sample(f func() interface{}) {
	c.mu.Lock()
	defer c.mu.Unlock()
	c.sampleSeen++
	n := c.sampleSeen
	if len(c.samples) < c.maxSamples {
		// keep cases 1, 10, 100, 1000 ...
		want := int64(1)
		for i := 0; i < len(c.samples); i++ {
			want *= 10
		}
		if n >= want {
			c.samples = append(c.samples, f())
		}
	}
}

// Set stores an additional coverage key.
func (c *Collector) Set(k string, v interface{}) {
	c.mu.Lock()
	c.extra[k] = v
	c.mu.Unlock()
}

// Exhaustive marks the unit as having enumerated its space completely.
func (c *Collector) Exhaustive(b bool) {
	c.mu.Lock()
	c.exhaustive = b
	c.mu.Unlock()
}

// Inconclusive counts a case that was discarded for infrastructure reasons (timing noise).
func (c *Collector) Inconclusive() {
	c.mu.Lock()
	c.inconcl++
	c.mu.Unlock()
}

var (
	knownOnce sync.Once
	knownKeys map[string]string
)

func loadKnown() {
	knownKeys = map[string]string{}
	path := os.Getenv("VERIF_KNOWN")
	if path == "" {
		return
	}
	f, err := os.Open(path)
	if err != nil {
		return
	}
	defer f.Close()
	sc := bufio.NewScanner(f)
	for sc.Scan() {
		line := strings.TrimSpace(sc.Text())
		if !strings.HasPrefix(line, "known:") {
			continue
		}
		for _, fld := range strings.Fields(line) {
			if strings.HasPrefix(fld, "key=") {
				knownKeys[strings.TrimPrefix(fld, "key=")] = line
			}
		}
	}
}

// Known reports whether the witness key is listed as a known finding. When it
// is, the hit is recorded (the driver prints KNOWN-FINDING for it) and the
// caller must exclude the witness class and continue.
func (c *Collector) Known(key, witness string) bool {
	knownOnce.Do(loadKnown)
	if _, ok := knownKeys[key]; !ok {
		return false
	}
	c.mu.Lock()
	if _, ok := c.knownHits[key]; !ok {
		c.knownHits[key] = witness
	}
	c.excluded[key]++
	c.mu.Unlock()
	return true
}

type out struct {
	Unit        string                 `json:"unit"`
	Evaluations int64                  `json:"evaluations"`
	Nontrivial  int                    `json:"distinct_nontrivial"`
	Classes     map[string]int64       `json:"classes"`
	Samples     []interface{}          `json:"samples"`
	Extra       map[string]interface{} `json:"extra"`
	KnownHits   map[string]string      `json:"known_hits"`
	Excluded    map[string]int64       `json:"excluded_known"`
	Exhaustive  bool                   `json:"exhaustive"`
	Inconcl     int64                  `json:"inconclusive"`
	HashFile    string                 `json:"hash_file"`
}

// Flush writes all registered collectors to $VERIF_STATS (one JSON document per
// line, appended) and the non-trivial hashes to a side file. Call from TestMain.
func Flush() {
	path := os.Getenv("VERIF_STATS")
	if path == "" {
		return
	}
	regMu.Lock()
	defer regMu.Unlock()
	f, err := os.OpenFile(path, os.O_CREATE|os.O_APPEND|os.O_WRONLY, 0644)
	if err != nil {
		fmt.Fprintln(os.Stderr, "stats:", err)
		return
	}
	defer f.Close()
	for i, c := range reg {
		c.mu.Lock()
		if c.evaluations == 0 && len(c.nontrivial) == 0 {
			c.mu.Unlock()
			continue
		}
		hf := fmt.Sprintf("%s.%d.hashes", path, i)
		hw, err := os.Create(hf)
		if err == nil {
			bw := bufio.NewWriter(hw)
			keys := make([]uint64, 0, len(c.nontrivial))
			for k := range c.nontrivial {
				keys = append(keys, k)
			}
			sort.Slice(keys, func(a, b int) bool { return keys[a] < keys[b] })
			var b [8]byte
			for _, k := range keys {
				binary.LittleEndian.PutUint64(b[:], k)
				bw.Write(b[:])
			}
			bw.Flush()
			hw.Close()
		}
		if c.samples == nil {
			c.samples = []interface{}{}
		}
		o := out{
			Unit: c.Unit, Evaluations: c.evaluations, Nontrivial: len(c.nontrivial),
			Classes: c.classes, Samples: c.samples, Extra: c.extra, KnownHits: c.knownHits,
			Excluded: c.excluded, Exhaustive: c.exhaustive, Inconcl: c.inconcl, HashFile: hf,
		}
		c.mu.Unlock()
		b, err := json.Marshal(o)
		if err != nil {
			// samples must be JSON-encodable; fall back to their %v form
			for j := range o.Samples {
				o.Samples[j] = fmt.Sprintf("%v", o.Samples[j])
			}
			b, _ = json.Marshal(o)
		}
		f.Write(append(b, '\n'))
	}
}
