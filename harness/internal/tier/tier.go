// Package tier exposes the driver's run parameters to plain (non-rapid) tests.
package tier

import (
	"os"
	"strconv"
)

// Thorough reports whether the thorough tier was requested.
func Thorough() bool { return os.Getenv("VERIF_TIER") == "thorough" }

// Shard returns (shard index, number of shards) for enumerations that are split over processes.
func Shard() (int, int) {
	i, _ := strconv.Atoi(os.Getenv("VERIF_SHARD"))
	n, _ := strconv.Atoi(os.Getenv("VERIF_NSHARDS"))
	if n <= 0 {
		n = 1
	}
	if i < 0 || i >= n {
		i = 0
	}
	return i, n
}

// Seed returns VERIF_SEED (default 1).
func Seed() int64 {
	s, err := strconv.ParseInt(os.Getenv("VERIF_SEED"), 10, 64)
	if err != nil {
		return 1
	}
	return s
}

// Scale returns q in the quick tier and t in the thorough tier.
func Scale(q, t int) int {
	if Thorough() {
		return t
	}
	return q
}
