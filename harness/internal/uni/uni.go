// Package uni draws (nearly) uniformly distributed selectors from rapid.
//
// rapid's integer generators are deliberately biased towards small values and range ends
// (IntRange(0,99) returns 0 or 1 in 20% of the draws), which is what one wants for data values
// but not for "take this branch in p% of the cases" decisions. The selectors here are built from
// 5-16 fair rapid.Bool draws, so they still come from rapid (shrinkable towards 0, replayable,
// usable from rapid.MakeFuzz) but are uniform.
package uni

import "pgregory.net/rapid"

var bitGens [17]*rapid.Generator[[]bool]

func init() {
	for i := range bitGens {
		bitGens[i] = rapid.SliceOfN(rapid.Bool(), i, i)
	}
}

// Int returns a value in [0,n), n <= 65536, (nearly) uniformly distributed; shrinks towards 0.
func Int(t *rapid.T, label string, n int) int {
	if n <= 1 {
		return 0
	}
	// enough bits for a relative deviation from uniform below 1/16
	nb := 4
	for (1 << uint(nb-4)) < n {
		nb++
	}
	if nb > 16 {
		nb = 16
	}
	bs := bitGens[nb].Draw(t, label)
	v := 0
	for _, b := range bs {
		v <<= 1
		if b {
			v |= 1
		}
	}
	return v * n >> uint(nb)
}

// Pct returns a value in [0,100).
func Pct(t *rapid.T, label string) int { return Int(t, label, 100) }

// Range returns a value in [lo,hi].
func Range(t *rapid.T, label string, lo, hi int) int { return lo + Int(t, label, hi-lo+1) }

// Chance is true in about p percent of the draws.
func Chance(t *rapid.T, label string, p int) bool { return Pct(t, label) < p }
