// Package vidx drives vecfc.Index directly (without the consensus layer) over a reference DAG.
package vidx

import (
	"fmt"

	"github.com/Fantom-foundation/lachesis-base/hash"
	"github.com/Fantom-foundation/lachesis-base/inter/dag"
	"github.com/Fantom-foundation/lachesis-base/kvdb/memorydb"
	"github.com/Fantom-foundation/lachesis-base/vecfc"
	"pgregory.net/rapid"

	"verif/harness/internal/graphref"
)

// Index is a vecfc index fed from a reference DAG.
type Index struct {
	Ref   *graphref.Ref
	Idx   *vecfc.Index
	Crits []error
	evs   map[hash.Event]dag.Event
	Added []bool
}

// DrawConfig draws cache sizes from {0, 1, small, lite}.
func DrawConfig(t *rapid.T, label string) (vecfc.IndexConfig, string) {
	switch rapid.IntRange(0, 4).Draw(t, label) {
	case 0:
		return vecfc.IndexConfig{}, "zero"
	case 1:
		return vecfc.IndexConfig{Caches: vecfc.IndexCacheConfig{ForklessCausePairs: 1, HighestBeforeSeqSize: 1, LowestAfterSeqSize: 1}}, "one"
	case 2:
		return vecfc.IndexConfig{Caches: vecfc.IndexCacheConfig{ForklessCausePairs: 3, HighestBeforeSeqSize: 200, LowestAfterSeqSize: 200}}, "small"
	case 3:
		return vecfc.IndexConfig{Caches: vecfc.IndexCacheConfig{ForklessCausePairs: 50, HighestBeforeSeqSize: 2000, LowestAfterSeqSize: 2000}}, "medium"
	}
	return vecfc.LiteConfig(), "lite"
}

// New creates an empty index for the reference's validators.
func New(ref *graphref.Ref, cfg vecfc.IndexConfig) *Index {
	x := &Index{Ref: ref, evs: map[hash.Event]dag.Event{}, Added: make([]bool, len(ref.Evs))}
	x.Idx = vecfc.NewIndex(func(err error) { x.Crits = append(x.Crits, err) }, cfg)
	x.Idx.Reset(ref.Validators(), memorydb.New(), func(id hash.Event) dag.Event { return x.evs[id] })
	return x
}

// Add indexes event i (its parents must have been added) and flushes.
func (x *Index) Add(i int) error {
	e := x.Ref.Evs[i]
	for _, p := range e.Parents {
		if !x.Added[p] {
			return fmt.Errorf("harness: parent e%d of e%d not added", p, i)
		}
	}
	de := x.Ref.DagEvent(e, e.Frame)
	x.evs[de.ID()] = de
	if err := x.Idx.Add(de); err != nil {
		return err
	}
	x.Idx.Flush()
	x.Added[i] = true
	return nil
}

// ResetWith re-initialises the same index object for another reference (same events, other validator
// weights) over a fresh database, as a consensus Reset does.
func (x *Index) ResetWith(ref *graphref.Ref) {
	x.Ref = ref
	x.Added = make([]bool, len(ref.Evs))
	x.Idx.Reset(ref.Validators(), memorydb.New(), func(id hash.Event) dag.Event { return x.evs[id] })
}
