// Package vidx drives vecfc.Index directly (without the consensus layer) over a reference DAG.
package vidx

import (
	"fmt"

	"github.com/Fantom-foundation/lachesis-base/hash"
	"github.com/Fantom-foundation/lachesis-base/inter/dag"
	"github.com/Fantom-foundation/lachesis-base/inter/idx"
	"github.com/Fantom-foundation/lachesis-base/inter/pos"
	"github.com/Fantom-foundation/lachesis-base/kvdb"
	"github.com/Fantom-foundation/lachesis-base/kvdb/memorydb"
	"github.com/Fantom-foundation/lachesis-base/vecfc"
	"pgregory.net/rapid"

	"verif/harness/internal/graphref"
)

// Index is a vecfc index fed from a reference DAG.
type Index struct {
	Ref   *graphref.Ref
	Idx   *vecfc.Index
	Crits []error
	evs   map[hash.Event]dag.Event
	Added []bool
	db    kvdb.Store
	cfg   vecfc.IndexConfig
}

// DrawConfig draws cache sizes from {0, 1, small, lite}.
func DrawConfig(t *rapid.T, label string) (vecfc.IndexConfig, string) {
	switch rapid.IntRange(0, 4).Draw(t, label) {
	case 0:
		return vecfc.IndexConfig{}, "zero"
	case 1:
		return vecfc.IndexConfig{Caches: vecfc.IndexCacheConfig{ForklessCausePairs: 1, HighestBeforeSeqSize: 1, LowestAfterSeqSize: 1}}, "one"
	case 2:
		return vecfc.IndexConfig{Caches: vecfc.IndexCacheConfig{ForklessCausePairs: 3, HighestBeforeSeqSize: 200, LowestAfterSeqSize: 200}}, "small"
	case 3:
		return vecfc.IndexConfig{Caches: vecfc.IndexCacheConfig{ForklessCausePairs: 50, HighestBeforeSeqSize: 2000, LowestAfterSeqSize: 2000}}, "medium"
	}
	return vecfc.LiteConfig(), "lite"
}

// New creates an empty index for the reference's validators.
func New(ref *graphref.Ref, cfg vecfc.IndexConfig) *Index {
	x := &Index{Ref: ref, evs: map[hash.Event]dag.Event{}, Added: make([]bool, len(ref.Evs)), db: memorydb.New(), cfg: cfg}
	x.Idx = vecfc.NewIndex(func(err error) { x.Crits = append(x.Crits, err) }, cfg)
	x.Idx.Reset(ref.Validators(), x.db, func(id hash.Event) dag.Event { return x.evs[id] })
	return x
}

// AddNoFlush indexes event i and leaves the flush to the caller.
func (x *Index) AddNoFlush(i int) error {
	e := x.Ref.Evs[i]
	for _, p := range e.Parents {
		if !x.Added[p] {
			return fmt.Errorf("harness: parent e%d of e%d not added", p, i)
		}
	}
	de := x.Ref.DagEvent(e, e.Frame)
	x.evs[de.ID()] = de
	if err := x.Idx.Add(de); err != nil {
		return err
	}
	x.Added[i] = true
	return nil
}

// Reopen replaces the index object by a new one over the same database, as a restarted node does (everything
// must have been flushed).
func (x *Index) Reopen() {
	x.Idx = vecfc.NewIndex(func(err error) { x.Crits = append(x.Crits, err) }, x.cfg)
	x.Idx.Reset(x.Ref.Validators(), x.db, func(id hash.Event) dag.Event { return x.evs[id] })
}

// ResetSameDB calls Reset on the same index object with the same validators and the same database.
func (x *Index) ResetSameDB() {
	x.Idx.Reset(x.Ref.Validators(), x.db, func(id hash.Event) dag.Event { return x.evs[id] })
}

// Add indexes event i (its parents must have been added) and flushes.
func (x *Index) Add(i int) error {
	e := x.Ref.Evs[i]
	for _, p := range e.Parents {
		if !x.Added[p] {
			return fmt.Errorf("harness: parent e%d of e%d not added", p, i)
		}
	}
	de := x.Ref.DagEvent(e, e.Frame)
	x.evs[de.ID()] = de
	if err := x.Idx.Add(de); err != nil {
		return err
	}
	x.Idx.Flush()
	x.Added[i] = true
	return nil
}

// ResetWith re-initialises the same index object for another reference (same events, other validator
// weights) over a fresh database, as a consensus Reset does.
func (x *Index) ResetWith(ref *graphref.Ref) {
	x.Ref = ref
	x.Added = make([]bool, len(ref.Evs))
	x.db = memorydb.New()
	x.Idx.Reset(ref.Validators(), x.db, func(id hash.Event) dag.Event { return x.evs[id] })
}

// Session is a drawn way of driving one index: flush after every event (the consensus flow, with the no-op
// DropNotFlushed that follows there) or after several, and sometimes, after a flush, a reload of everything from the
// database (DropNotFlushed, Reset over the same database, a new index object).
type Session struct {
	FlushEvery int
	Reloads    int
	label      string
	step       int
	reloadPct  []int
}

// DrawSession draws the flush period and how often a flush is followed by a reload.
func DrawSession(t *rapid.T, label string) *Session {
	s := &Session{label: label, FlushEvery: rapid.SampledFrom([]int{1, 1, 2, 3, 7}).Draw(t, label+".flushEvery")}
	switch rapid.IntRange(0, 3).Draw(t, label+".reloadStyle") {
	case 0:
		s.reloadPct = []int{0} // never
	case 1:
		s.reloadPct = []int{1} // DropNotFlushed after every flush, as the consensus layer does
	default:
		s.reloadPct = []int{0, 0, 0, 0, 1, 1, 2, 3}
	}
	return s
}

// AddS indexes event i within the session; last forces the final flush. It reports whether the index object was
// replaced (adapters holding the old object must be rebuilt).
func (x *Index) AddS(t *rapid.T, s *Session, i int, last bool) (replaced bool, err error) {
	if err := x.AddNoFlush(i); err != nil {
		return false, err
	}
	s.step++
	if s.step%s.FlushEvery != 0 && !last {
		return false, nil
	}
	x.Idx.Flush()
	switch rapid.SampledFrom(s.reloadPct).Draw(t, s.label+".afterFlush") {
	case 1:
		x.Idx.DropNotFlushed()
		s.Reloads++
	case 2:
		x.ResetSameDB()
		s.Reloads++
	case 3:
		x.Reopen()
		s.Reloads++
		return true, nil
	}
	return false, nil
}

// NewAfterOtherEpoch is New for an index object that has served another epoch before: the same object first
// indexes a small DAG of another validator group (1-6 validators - so mostly a group of another size - with an
// optional fork, flushed and reloaded the way the consensus layer does) over its own database and is then Reset
// to the reference's group over a fresh database, as happens at every epoch change of a running node.
func NewAfterOtherEpoch(t *rapid.T, ref *graphref.Ref, cfg vecfc.IndexConfig) *Index {
	k := rapid.IntRange(1, 6).Draw(t, "earlierEpochValidators")
	ids := make([]idx.ValidatorID, k)
	ws := make([]pos.Weight, k)
	for i := range ids {
		ids[i] = idx.ValidatorID(100 + i)
		ws[i] = pos.Weight(rapid.Uint32Range(1, 3).Draw(t, "earlierEpochWeight"))
	}
	rounds := rapid.IntRange(1, 3).Draw(t, "earlierEpochRounds")
	old := graphref.New(ref.Epoch+1000, ids, ws, k*rounds+4)
	for r := 0; r < rounds; r++ {
		for v := 0; v < k; v++ {
			sp := -1
			if own := old.ByCreat[v]; len(own) > 0 {
				sp = own[len(own)-1]
			}
			var others []int
			for u := 0; u < k; u++ {
				if u != v && len(old.ByCreat[u]) > 0 {
					others = append(others, old.ByCreat[u][len(old.ByCreat[u])-1])
				}
			}
			e := old.Prepare(graphref.Proto{Creator: v, SelfParent: sp, Others: others, Salt: uint32(r)})
			_, hi := old.Allowed(e)
			old.Commit(e, hi)
		}
	}
	if own := old.ByCreat[0]; len(own) >= 2 && rapid.Bool().Draw(t, "earlierEpochFork") {
		e := old.Prepare(graphref.Proto{Creator: 0, SelfParent: own[0], Salt: 77})
		_, hi := old.Allowed(e)
		old.Commit(e, hi)
	}
	x := New(old, cfg)
	for i := range old.Evs {
		if err := x.Add(i); err != nil {
			t.Fatalf("earlier epoch: Add(e%d): %v", i, err)
		}
		if rapid.Bool().Draw(t, "earlierEpochDrop") {
			x.Idx.DropNotFlushed()
		}
	}
	x.ResetWith(ref)
	return x
}
