#!/usr/bin/env python3
"""Regenerate section 8 of DESIGN.md from mutants/*/RESULTS.md and seeded/*/meta.json."""
import glob, json, os, re
rows=[]; nq=nt=nn=0; hist_n=0
for f in sorted(glob.glob('/verif/seeded/*/meta.json')):
    m=json.load(open(f)); d=os.path.dirname(f); name=os.path.basename(d)
    note=''
    np=os.path.join(d,'note.md')
    if os.path.exists(np):
        txt=' '.join(l.strip() for l in open(np) if l.strip() and not l.startswith('#'))
        txt=re.sub(r'\*\*|`','',txt)
        note=txt[:200].rsplit(' ',1)[0]+' …'
    q,t=m.get('check_quick_exit'),m.get('check_thorough_exit')
    if m.get('override'): res=m['override']; nn+=1
    elif q=='1': res='quick'; nq+=1
    elif t=='1': res='thorough only'; nt+=1
    else: res='NOT CAUGHT'; nn+=1
    if m.get('history'):
        hist_n+=1
        res+=' (after strengthening: '+m['history'].split('generator: ')[-1]+')'
    rnd = 1 if name.endswith(('-1','-2')) else 2
    rows.append('| %s | %d | %s | %s |'%(name,rnd,res,note.replace('|','/')))
mut=[]
for f in sorted(glob.glob('/verif/mutants/*/RESULTS.md')):
    pid=f.split('/')[-2]; txt=open(f).read()
    n=len(glob.glob(os.path.dirname(f)+'/*.diff'))
    nc=len(re.findall(r'(?i)not caught',txt)); th=len(re.findall(r'(?i)thorough only|caught thorough|thorough-only',txt))
    mut.append('| %s | %d | %d | %d |'%(pid,n,nc,th))
sec='''
## 8. Self-test results: which checks catch which changes

### 8.1 Sensitivity mutations (written by the check authors, `mutants/<ID>/*.diff`, run with `tools/mutrun`)
Every diff compiles; most keep the repository's own tests passing (each RESULTS.md says which). "not caught" entries are
analysed in the RESULTS.md of the property: they are equivalent mutants or outside the property's text. All twelve
`fix:` commits of section 5 are caught in the quick tier when reverted (`tools/mutrun -R:<commit> <ID>`).

| property | mutant diffs | RESULTS.md lines mentioning "not caught" | mentioning "thorough only" |
|---|---|---|---|
'''+'\n'.join(mut)+'''

### 8.2 Independently seeded changes (`seeded/<ID>-<k>/`: patch.diff, demonstration, note.md, meta.json)
Two rounds. For every property and round a fresh sub-agent that saw only the property text (round 2: plus a one-paragraph
description of the round-1 changes of that property, to avoid repeats) and its own scratch worktree - nothing from /verif - wrote two
changes that break the property, compile, and keep the repository's suite passing, each with a demonstration that fails with the
change and passes without it. `tools/seedcheck` re-confirmed all of that in a scratch worktree (demo passes on the clean tree, fails
with the change, `go test ./...` passes with the change) and then ran `./check <ID> quick` (and `thorough` when quick missed it)
against the changed worktree. **%d changes, all confirmed: %d caught in the quick tier, %d only in the thorough tier, %d not caught
(outside the legitimate-caller domain, see its row).** %d of the quick catches needed a stronger generator first: the change was
missed by the check as it stood (noted in the row). In round 2 I also strengthened some generators after reading the seeding agent's
summary but *before* the first evaluation (C02 long epochs, C03 retained cheater lists and Reset, C04 deep lag, C05 index reuse after
Reset, C06 two parents of one forker, C09 Reset to the current epoch, C11 RLP-decoded sets, C12 large sets, C13 long-lived checkers):
those rows read "quick" without a note although the original generator would probably have missed them. No oracle was weakened or
removed because of a seeded change.

| change | round | caught by `./check <ID>` | what it does / what it needs (from the seeding agent's note) |
|---|---|---|---|
'''%(len(rows),nq,nt,nn,hist_n)+'\n'.join(rows)+'''

Thorough-only catches share one cause: they need a rare conjunction that random generation reaches about once in 10^3-10^4 cases
(a decision taken on a non-final root slot of an event that is a root of several frames - C01-2, C09-4 and the `no_sealed_break`
mutant; a third fork branch numbered differently by two delivery orders - C01-4; two fork roots of one validator in one cached
frame - C08-2; the same root winning two consecutive frames - C02-4; a tick of the leecher's timer racing with UnregisterPeer - C18-4).

Lessons that changed the generators: boundary classes must include the values callers use for "unlimited" (C14), sizes beyond one
machine word of flags or a sort's small-input path (C11, C12, C24), operations whose *lifetime spans* another operation (a batch across
a flush, C25; a provisional ID before the final fields, C32; Stop during handling, C15; pipelined requests, C17), objects that live
longer than one case (checkers, strategies, an index that is Reset: C13, C19, C05), injected faults of the layer below (C27), values
that go down where they usually go up (C15), alternative representations of one value (C21), aliasing through slices with spare
capacity (C23, C24, C32), scenario shapes in which a generous timing bound itself hides the defect (C16, C30), restarting the *same*
epoch (C09, C33), and frames assigned by the implementation's own Build instead of the reference (C01). One first attempt at C27's
fault injection produced a false alarm of my own (a failed underlying open counted as "not an open" for the drop bound although the
wrapper re-arms its guard on every OpenDB call and the text does not say which reading is meant); the check uses the weaker reading,
stated in the config.
'''
p='/verif/DESIGN.md'
s=open(p).read()
if '## 8. Self-test results' in s:
    s=s[:s.index('\n## 8. Self-test results')]
s=s.rstrip()+'\n'+sec
open(p,'w').write(s)
print(len(rows),nq,nt,nn,hist_n)
