#!/usr/bin/env python3
"""Regenerate section 8 of DESIGN.md from mutants/*/RESULTS.md and seeded/*/meta.json."""
import glob, json, os, re
rows=[]; nq=nt=nn=0; hist_n=0; per_round={}; r3_missed=0; invalid=[]; r4_missed=0
for f in sorted(glob.glob('/verif/seeded/*/meta.json')):
    m=json.load(open(f)); d=os.path.dirname(f); name=os.path.basename(d)
    note=''
    np=os.path.join(d,'note.md')
    if os.path.exists(np):
        txt=' '.join(l.strip() for l in open(np) if l.strip() and not l.startswith('#'))
        txt=re.sub(r'\*\*|`','',txt)
        note=txt[:200].rsplit(' ',1)[0]+' …'
    q,t=m.get('check_quick_exit'),m.get('check_thorough_exit')
    if not m['confirmed'].get('valid'):
        invalid.append(name); continue
    if m.get('override'): res=m['override']; nn+=1
    elif q=='1': res='quick'; nq+=1
    elif t=='1': res='thorough only'; nt+=1
    else: res='NOT CAUGHT'; nn+=1
    if m.get('history'):
        hist_n+=1
        res+=' (after strengthening: '+m['history'].split('generator: ')[-1]+')'
    rnd = 1 if name.endswith(('-1','-2')) else (2 if name.endswith(('-3','-4')) else (3 if name.endswith(('-5','-6')) else (5 if name.endswith('-9') else 4)))  # 5 = continuation mini-batch
    per_round.setdefault(rnd,[0,0,0,0]); per_round[rnd][0]+=1
    per_round[rnd][1 if res.startswith('quick') else (2 if res.startswith('thorough') else 3)]+=1
    if rnd==3 and (m.get('history') or m.get('override')): r3_missed+=1
    if rnd==4 and (m.get('history') or m.get('override')): r4_missed+=1
    rows.append('| %s | %d | %s | %s |'%(name,rnd,res,note.replace('|','/')))
mut=[]
for f in sorted(glob.glob('/verif/mutants/*/RESULTS.md')):
    pid=f.split('/')[-2]; txt=open(f).read()
    n=len(glob.glob(os.path.dirname(f)+'/*.diff'))
    nc=len(re.findall(r'(?i)not caught',txt)); th=len(re.findall(r'(?i)thorough only|caught thorough|thorough-only',txt))
    mut.append('| %s | %d | %d | %d |'%(pid,n,nc,th))
sec='''
## 8. Self-test results: which checks catch which changes

### 8.1 Sensitivity mutations (written by the check authors, `mutants/<ID>/*.diff`, run with `tools/mutrun`)
Every diff compiles; most keep the repository's own tests passing (each RESULTS.md says which). "not caught" entries are
analysed in the RESULTS.md of the property: they are equivalent mutants or outside the property's text. All twelve
`fix:` commits of section 5 are caught in the quick tier when reverted (`tools/mutrun -R:<commit> <ID>`).

| property | mutant diffs | RESULTS.md lines mentioning "not caught" | mentioning "thorough only" |
|---|---|---|---|
'''+'\n'.join(mut)+'''

### 8.2 Independently seeded changes (`seeded/<ID>-<k>/`: patch.diff, demonstration, note.md, meta.json)
Four rounds over all 33 properties (rounds 3 and 4 in two batches each: first the 20 properties with the richest state -
C01-C10, C14-C18, C22, C23, C25, C26, C28 - then, with a shorter budget per agent, the other 13). For every property and round a fresh sub-agent that saw only the property text (rounds 2-4: plus a
one-paragraph description of the earlier changes of that property, to avoid repeats; rounds 3 and 4 asked explicitly for changes that need
something specific to show - a size, a call order, a configuration, a fault - round 4 also for violations reachable by a
legitimate caller only) and its own scratch worktree - nothing from /verif - wrote two
changes that break the property, compile, and keep the repository's suite passing, each with a demonstration that fails with the
change and passes without it. `tools/seedcheck` re-confirmed all of that in a scratch worktree (demo passes on the clean tree, fails
with the change, `go test ./...` passes with the change) and then ran `./check <ID> quick` (and `thorough` when quick missed it)
against the changed worktree. **%d changes, all confirmed: %d caught in the quick tier, %d only in the thorough tier, %d not caught
(see their rows).** Per round (changes / quick / thorough only / not caught): %s. %d of the catches needed a stronger generator (or, twice,
an additional oracle clause that the property text states) first: the change was missed by the check as it stood when it arrived (noted in
the row). Round 3 was the hardest: %d of its %d changes were missed at first, because they hide behind a size (more than 64 validators,
more than 64 branches, more than 100 roots in a frame, several hundred events in one block), a call order (Reset to the *same* epoch,
several flushes without a reload, Start-Enqueue-Stop), a configuration (no Released callback), a fault of the layer below (SendChunk
errors), a caller habit (keeping returned objects, releasing an iterator twice, mutating a map after passing it) or a schedule (Drop during
Flush, receipts while the loop is busy, an open during a slow close, two blocked callers with different deadlines, concurrent
encoders); each became a generated class, except a Drop before Close through the caching producer (C27-2, C27-6), which every store
of the repository refuses with a panic. Round 4: %d of its %d confirmed changes were missed at first (a validator cut off for more than 100 frames, an index
object that served a group of another size before, frame-independent event IDs, an application that keeps editing its builders, a built
and abandoned attempt at the same epoch, unverified Lamport claims, Clear during a cascade, full task queues, 16+ peers, flushes above
100 KiB, repeated flush IDs, consecutive Atropoi with non-nested views of a fork; in the second batch: builders derived from a live set,
caller arrays reused after a constructor, repeated IDs, encodings above 64 KiB, a state object decoded in place, reused buffers with spare
capacity, 2^16 events between two queries, batches written twice, keys beyond 64 bytes with their prefix, a failing underlying Close,
concurrent first opens, caller-owned Keys lists, "no limit" bounds and timeouts, an over-release, shared tables, power-of-two widths,
repeated decodes, slices longer than the width, results held across later calls); the last one (C03-8) was not reached by the random
generator even after a class counter and a generator mode had been added for it (7000 DAGs without a block whose cheater list is shorter
than the previous one's), so a constructed family of DAGs was added as its own unit (TestC03SplitView; 99%% of its cases contain such
blocks); three are caught in the thorough tier only (C01-8, C05-8, C28-8). One round-4 delivery (%s) could not be confirmed (its demonstration passes with the change applied in
re-validation) and is not counted. In round 2 I also strengthened some generators after reading the seeding agent's
summary but *before* the first evaluation (C02 long epochs, C03 retained cheater lists and Reset, C04 deep lag, C05 index reuse after
Reset, C06 two parents of one forker, C09 Reset to the current epoch, C11 RLP-decoded sets, C12 large sets, C13 long-lived checkers):
those rows read "quick" without a note although the original generator would probably have missed them. No oracle was weakened or
removed because of a seeded change.

| change | round | caught by `./check <ID>` | what it does / what it needs (from the seeding agent's note) |
|---|---|---|---|
'''%(len(rows),nq,nt,nn,'; '.join('round %d: %d / %d / %d / %d'%(r,*per_round[r]) for r in sorted(per_round)),hist_n,r3_missed,per_round.get(3,[0])[0],r4_missed,per_round.get(4,[0])[0],', '.join(invalid) or 'none')+'\n'.join(rows)+'''

Thorough-only catches share one cause: they need a rare conjunction that random generation reaches about once in 10^3-10^4 cases
(a decision taken on a non-final root slot of an event that is a root of several frames - C01-2, C09-4 and the `no_sealed_break`
mutant; a third fork branch numbered differently by two delivery orders - C01-4; two fork roots of one validator in one cached
frame - C08-2; the same root winning two consecutive frames - C02-4; a tick of the leecher's timer racing with UnregisterPeer - C18-4;
a forker beyond sorted index 63 whose double-counted weight tips a quorum - C01-5, about one many-validators case in five, of which the
quick tier draws about four; `./check C10 quick` catches the same change through Build against the reference; C05-8 is the same
mechanism seen from the index; C01-8 needs a lagging root that decides the lowest undecided frame by a vote in a non-top slot; C28-8
needs a Get that overlaps another call and a later operation that depends on the recency order).

Lessons that changed the generators: boundary classes must include the values callers use for "unlimited" (C14), sizes beyond one
machine word of flags or a sort's small-input path (C11, C12, C24), operations whose *lifetime spans* another operation (a batch across
a flush, C25; a provisional ID before the final fields, C32; Stop during handling, C15; pipelined requests, C17), objects that live
longer than one case (checkers, strategies, an index that is Reset: C13, C19, C05), injected faults of the layer below (C27), values
that go down where they usually go up (C15), alternative representations of one value (C21), aliasing through slices with spare
capacity (C23, C24, C32), scenario shapes in which a generous timing bound itself hides the defect (C16, C30), restarting the *same*
epoch (C09, C33), and frames assigned by the implementation's own Build instead of the reference (C01). One first attempt at C27's
fault injection produced a false alarm of my own (a failed underlying open counted as "not an open" for the drop bound although the
wrapper re-arms its guard on every OpenDB call and the text does not say which reading is meant); the check uses the weaker reading,
stated in the config.
'''
p='/verif/DESIGN.md'
s=open(p).read()
if '## 8. Self-test results' in s:
    s=s[:s.index('\n## 8. Self-test results')]
s=s.rstrip()+'\n'+sec
open(p,'w').write(s)
print(len(rows),nq,nt,nn,hist_n)
