#!/usr/bin/env python3
"""Validate MANIFEST.json and every evidence file against the task schemas (uses the tooling venv)."""
import json, sys, glob
import jsonschema
ok = True
m = json.load(open('/verif/MANIFEST.json'))
try:
    jsonschema.validate(m, json.load(open('/root/.vp/MANIFEST.schema.json')))
    print('MANIFEST ok, %d checks' % len(m['checks']))
except Exception as e:
    ok = False; print('MANIFEST INVALID', e)
es = json.load(open('/root/.vp/EVIDENCE.schema.json'))
for f in sorted(glob.glob('/verif/evidence/*.json')):
    try:
        jsonschema.validate(json.load(open(f)), es)
    except Exception as e:
        ok = False; print(f, 'INVALID', str(e)[:300])
print('evidence checked')
sys.exit(0 if ok else 1)
